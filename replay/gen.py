"""Shared generator library of the witness layer: random *abstract* Blackbird programs -> (script text, expected program).

The expected program is computed here, by an evaluator of our own working on the abstract tree with exact arithmetic
(fractions.Fraction for integers/rationals, mpmath at 160 bits for pi, the fifteen functions and non-rational powers);
blackbird is never imported.  Expressions are printed with the MINIMAL parentheses under the binding order the property
statement gives (brackets > unary sign > right-assoc ** > * / > + -, left-assoc), so a precedence or associativity error of
the parser changes the value.  Text is emitted so that its tokenisation is known:

  * binary operators are always surrounded by one space (`2 - 1j` is three tokens, `2-1j` would be one COMPLEX token);
  * a sign directly in front of a two-part complex literal is part of the literal (`-3-1j` denotes -3-1j); the generator
    treats these as literals of their own and puts a space or brackets when it means a unary sign on a two-part literal;
  * list separators are ", " (`1,2` would lex as SEQUENCE);
  * names never collide with keywords / function names / pi / True / False / qN / Measure... .

Values are JSON-able:  int -> int, float -> float, complex -> {"c": [re, im]}, bool, str, list -> list,
array -> {"arr": {"dtype": "int|float|complex", "rows": [[...]]}};  ordered maps (kwargs, options) -> [[key, value], ...].

Everything is deterministic in the random.Random passed in.   Self test:  python -m replay.gen [n]
"""
import math
import re
from fractions import Fraction

import mpmath

MP = mpmath.MPContext()
MP.prec = 160
U = 2.0 ** -52                       # one ulp (relative); the running error bound charges a few of these per operation
ACCEPT = 1e-13                       # an expression is used only if its running error bound is <= ACCEPT * max(1, |value|)
INT_LIMIT = 2 ** 63
BIG = 1e15

FUNCS = ["sin", "cos", "tan", "arcsin", "arccos", "arctan", "sinh", "cosh", "tanh", "arcsinh", "arccosh", "arctanh",
         "sqrt", "log", "exp"]
KEYWORDS = set(FUNCS) | {"pi", "True", "False", "name", "version", "target", "type", "include", "for", "in", "array",
                         "float", "complex", "int", "str", "bool"}


class Bad(Exception):
    """the abstract expression is outside the property's domain (division by zero, outside a real domain, overflow,
    ill-conditioned, ...): the generator draws another one"""


# ---------------------------------------------------------------------------------------------------------------------
# exact values

class V:
    """k: int|float|complex|bool|str ; re, im: Fraction or mpf (bool/str: re holds the Python value) ;
    err: bound on the absolute error an IEEE-double evaluation with few-ulp operations may have accumulated"""
    __slots__ = ("k", "re", "im", "err")

    def __init__(self, k, re_, im=Fraction(0), err=0.0):
        self.k, self.re, self.im, self.err = k, re_, im, err

    def __repr__(self):
        return "V(%s, %s)" % (self.k, enc(self))


ZERO = Fraction(0)
RANK = {"int": 0, "float": 1, "complex": 2}


def _mp(x):
    return x if isinstance(x, MP.mpf) else MP.mpf(x.numerator) / x.denominator


def _add(a, b):
    if type(a) is Fraction and type(b) is Fraction:
        return a + b
    return _mp(a) + _mp(b)


def _sub(a, b):
    if type(a) is Fraction and type(b) is Fraction:
        return a - b
    return _mp(a) - _mp(b)


def _mul(a, b):
    if type(a) is Fraction and type(b) is Fraction:
        return a * b
    return _mp(a) * _mp(b)


def _div(a, b):
    if type(a) is Fraction and type(b) is Fraction:
        return a / b
    return _mp(a) / _mp(b)


def _f(x):
    return float(x)


def mag(v):
    if v.k == "complex":
        return math.hypot(_f(v.re), _f(v.im))
    return abs(_f(v.re))


def _as_float_err(v):
    """error of the operand once it takes part in a float operation (an int64 above 2**53 is rounded)"""
    if v.k == "int" and abs(v.re) > 2 ** 53:
        return U * mag(v)
    return v.err


def _mk(k, re_, im, err):
    if k == "int":
        if abs(re_) >= INT_LIMIT:
            raise Bad("int64 range")
        return V("int", re_, ZERO, 0.0)
    m = math.hypot(_f(re_), _f(im)) if k == "complex" else abs(_f(re_))
    if not (m < BIG) or not (err < 1e300):
        raise Bad("magnitude")
    return V(k, re_, im, err)


def lit_err(fr):
    """rounding error of reading the decimal literal with exact value fr as a double"""
    f = float(fr)
    return 0.0 if Fraction(f) == fr else U * abs(f)


def is_intval(v):
    return v.k != "complex" and type(v.re) is Fraction and v.re.denominator == 1


def v_neg(a):
    if a.k == "complex":
        return V("complex", -a.re, -a.im, a.err)
    return _mk(a.k, -a.re, ZERO, a.err)


def v_addsub(a, b, sub=False):
    k = a.k if RANK[a.k] >= RANK[b.k] else b.k
    re_ = _sub(a.re, b.re) if sub else _add(a.re, b.re)
    im = (_sub(a.im, b.im) if sub else _add(a.im, b.im)) if k == "complex" else ZERO
    if k == "int":
        return _mk("int", re_, ZERO, 0.0)
    m = math.hypot(_f(re_), _f(im))
    return _mk(k, re_, im, _as_float_err(a) + _as_float_err(b) + 2 * U * m)


def v_mul(a, b):
    k = a.k if RANK[a.k] >= RANK[b.k] else b.k
    if k == "complex":
        re_ = _sub(_mul(a.re, b.re), _mul(a.im, b.im))
        im = _add(_mul(a.re, b.im), _mul(a.im, b.re))
    else:
        re_, im = _mul(a.re, b.re), ZERO
    if k == "int":
        return _mk("int", re_, ZERO, 0.0)
    ea, eb = _as_float_err(a), _as_float_err(b)
    ma, mb = mag(a), mag(b)
    return _mk(k, re_, im, ma * eb + mb * ea + ea * eb + 4 * U * ma * mb)


def v_div(a, b):
    if b.re == 0 and b.im == 0:
        raise Bad("division by zero")
    k = "complex" if "complex" in (a.k, b.k) else "float"
    if k == "complex":
        den = _add(_mul(b.re, b.re), _mul(b.im, b.im))
        re_ = _div(_add(_mul(a.re, b.re), _mul(a.im, b.im)), den)
        im = _div(_sub(_mul(a.im, b.re), _mul(a.re, b.im)), den)
    else:
        re_, im = _div(a.re, b.re), ZERO
    ea, eb = _as_float_err(a), _as_float_err(b)
    ma, mb = mag(a), mag(b)
    if eb >= mb:
        raise Bad("divisor not separated from zero")
    q = ma / mb
    return _mk(k, re_, im, (ea + q * eb) / (mb - eb) + 8 * U * q)


def _cpow_int(re_, im, n):
    """(re + i im) ** n for integer n >= 0, exactly"""
    rr, ri = Fraction(1), Fraction(0)
    for _ in range(n):
        rr, ri = _sub(_mul(rr, re_), _mul(ri, im)), _add(_mul(rr, im), _mul(ri, re_))
    return rr, ri


def v_pow(a, b):
    ma, mb = mag(a), mag(b)
    if a.k != "complex" and b.k != "complex":
        if a.k == "int" and b.k == "int":
            n = int(b.re)
            if n >= 0:
                if (a.re == 0 and n == 0) or n > 64:
                    raise Bad("0**0 / large exponent")
                if abs(a.re) > 1 and n * math.log2(abs(a.re)) >= 63:
                    raise Bad("int64 range")
                return _mk("int", a.re ** n, ZERO, 0.0)
            if a.re == 0 or n < -32:
                raise Bad("0 ** negative")
            r = Fraction(a.re) ** n
            return _mk("float", r, ZERO, 4 * U * abs(_f(r)))
        ea, eb = _as_float_err(a), _as_float_err(b)
        if is_intval(b) and abs(b.re) <= 32 and type(a.re) is Fraction and eb == 0.0:
            n = int(b.re)
            if a.re == 0 and n <= 0:
                raise Bad("0 ** non-positive")
            if a.re != 0 and abs(n * math.log10(abs(_f(a.re)) or 1e-300)) > 15:
                raise Bad("magnitude")
            r = a.re ** n
            rf = abs(_f(r))
            return _mk("float", r, ZERO, (abs(n) * rf / ma * ea if ma else 0.0) + 4 * U * rf * max(1, abs(n)))
        if not (a.re > 0) or ea >= ma:
            raise Bad("non-positive base with non-integer exponent")
        la = math.log(ma)
        if abs(_f(b.re) * la) > 34:
            raise Bad("magnitude")
        r = MP.power(_mp(a.re), _mp(b.re))
        rf = abs(_f(r))
        return _mk("float", r, ZERO, abs(_f(b.re)) * rf / ma * ea + rf * abs(la) * eb + 4 * U * rf * (1 + abs(_f(b.re) * la)))
    # complex
    ea, eb = _as_float_err(a), _as_float_err(b)
    if is_intval(b) and abs(b.re) <= 6 and type(a.re) is Fraction and type(a.im) is Fraction and eb == 0.0:
        n = int(b.re)
        if a.re == 0 and a.im == 0:
            raise Bad("0 ** n, complex")
        rr, ri = _cpow_int(a.re, a.im, abs(n))
        if n < 0:
            den = rr * rr + ri * ri
            rr, ri = rr / den, -ri / den
        rf = math.hypot(_f(rr), _f(ri))
        return _mk("complex", rr, ri, abs(n) * rf / ma * ea + 16 * U * rf * max(1, abs(n)))
    if ma == 0 or ea >= ma or (a.im == 0 and a.re < 0) or not (1e-3 <= ma <= 1e3) or mb > 4:
        raise Bad("complex power outside the sampled region (zero / negative-real-axis base, large operands)")
    if a.im != 0 and abs(_f(a.im)) <= 4 * ea and a.re < 0:
        raise Bad("base too close to the branch cut")
    r = MP.power(MP.mpc(_mp(a.re), _mp(a.im)), MP.mpc(_mp(b.re), _mp(b.im)))
    rf = abs(complex(r))
    la = abs(complex(MP.log(MP.mpc(_mp(a.re), _mp(a.im)))))
    return _mk("complex", r.real, r.imag, mb * rf / ma * ea + rf * la * eb + 32 * U * rf * (1 + mb * la))


# name -> (mpmath function, domain test on the exact argument x with error e, |derivative| as float function)
def _inf_guard(d, e):
    if e == 0.0:
        return 0.0
    return d * e


def v_func(name, a):
    if a.k not in ("int", "float"):
        raise Bad("function arguments are kept real")
    x = _mp(a.re)
    xf = _f(a.re)
    e = _as_float_err(a)
    if name in ("sin", "cos"):
        if abs(xf) > 1e3:
            raise Bad("large trig argument")
        r, d = (MP.sin(x), 1.0) if name == "sin" else (MP.cos(x), 1.0)
    elif name == "tan":
        if abs(xf) > 1.5:
            raise Bad("tan away from poles only")
        r = MP.tan(x)
        d = 1.0 + _f(r) ** 2
    elif name in ("arcsin", "arccos"):
        if abs(xf) + e > 1.0:
            raise Bad("domain")
        r = MP.asin(x) if name == "arcsin" else MP.acos(x)
        d = math.inf if abs(xf) >= 1.0 else 1.0 / math.sqrt((1 - xf) * (1 + xf))
    elif name in ("arctan", "tanh", "arcsinh"):
        r = {"arctan": MP.atan, "tanh": MP.tanh, "arcsinh": MP.asinh}[name](x)
        d = 1.0
    elif name in ("sinh", "cosh", "exp"):
        if abs(xf) > 30:
            raise Bad("large argument")
        r = {"sinh": MP.sinh, "cosh": MP.cosh, "exp": MP.exp}[name](x)
        d = math.cosh(xf) if name != "exp" else math.exp(xf)
    elif name == "arccosh":
        if xf - e < 1.0:
            raise Bad("domain")
        r = MP.acosh(x)
        d = math.inf if xf <= 1.0 else 1.0 / math.sqrt((xf - 1) * (xf + 1))
    elif name == "arctanh":
        if abs(xf) + e >= 1.0:
            raise Bad("domain")
        r = MP.atanh(x)
        d = 1.0 / ((1 - xf) * (1 + xf))
    elif name == "sqrt":
        if xf - e < 0.0:
            raise Bad("domain")
        if type(a.re) is Fraction:                                   # exact rational square roots stay rational
            n, dd = a.re.numerator, a.re.denominator
            rn, rd = math.isqrt(n), math.isqrt(dd)
            r = Fraction(rn, rd) if rn * rn == n and rd * rd == dd else MP.sqrt(x)
        else:
            r = MP.sqrt(x)
        d = math.inf if xf <= 0.0 else 0.5 / math.sqrt(xf)
    elif name == "log":
        if xf - e <= 0.0:
            raise Bad("domain")
        r = MP.log(x)
        d = 1.0 / xf
    else:
        raise KeyError(name)
    return _mk("float", r, ZERO, _inf_guard(d, e) + 4 * U * abs(_f(r)))


def well_conditioned(v):
    return v.k in ("bool", "str") or v.err <= ACCEPT * max(1.0, mag(v))


def cast(v, t):
    """CAST(T, v) for type-compatible values"""
    if t == "int":
        if v.k != "int":
            raise Bad("int from non-int")
        return v
    if t == "float":
        if v.k not in ("int", "float"):
            raise Bad("float from complex")
        return V("float", v.re, ZERO, _as_float_err(v))
    if t == "complex":
        if v.k not in RANK:
            raise Bad("complex from non-number")
        return V("complex", v.re, v.im, _as_float_err(v))
    if t in ("bool", "str"):
        if v.k != t:
            raise Bad("non-numeric mismatch")
        return v
    raise KeyError(t)


def enc(v):
    """exact value -> JSON-able plain value"""
    if isinstance(v, list):
        return [enc(x) for x in v]
    if isinstance(v, dict):                                          # array variable
        return {"arr": {"dtype": v["dtype"], "rows": [[enc(x) for x in row] for row in v["rows"]]}}
    if v.k == "int":
        return int(v.re)
    if v.k == "float":
        return float(v.re)
    if v.k == "complex":
        return {"c": [float(v.re), float(v.im)]}
    return v.re


def dec(j):
    """JSON-able plain value -> Python/NumPy value (inverse of enc up to float rounding)"""
    if isinstance(j, dict):
        if "c" in j:
            return complex(j["c"][0], j["c"][1])
        if "arr" in j:
            import numpy as np
            dt = {"int": np.int64, "float": np.float64, "complex": np.complex128}[j["arr"]["dtype"]]
            return np.array([[dec(x) for x in row] for row in j["arr"]["rows"]], dtype=dt)
        raise ValueError(j)
    if isinstance(j, list):
        return [dec(x) for x in j]
    return j


# ---------------------------------------------------------------------------------------------------------------------
# literals in every lexical form

def _int_lit(rng, lo=0, hi=12, forms=True):
    v = rng.randint(lo, hi)
    t = str(v)
    form = "int"
    if forms and rng.random() < 0.12:
        t = "0" * rng.randint(1, 2) + t
        form = "int-leading-zeros"
    return ("num", t, V("int", Fraction(v)), form)


FLOAT_FORMS = ["plain", "plain", "plain", "intval", "exp", "Exp", "exp-plus", "exp-minus", "exp-zero-padded", "frac-exp",
               "leading-zero", "exp0"]


def _float_lit(rng):
    form = rng.choice(FLOAT_FORMS)
    d = rng.randint(0, 9)
    f = rng.choice(["5", "25", "75", "1", "3", "125", "05", "7", "50"])
    if form == "plain":
        t = "%d.%s" % (d, f)
    elif form == "intval":
        t = "%d.0" % rng.randint(0, 9)
    elif form == "exp":
        t = "%de%d" % (rng.randint(1, 9), rng.randint(0, 3))
    elif form == "Exp":
        t = "%d.%sE%d" % (d, f, rng.randint(0, 2))
    elif form == "exp-plus":
        t = "%de+%d" % (rng.randint(1, 9), rng.randint(0, 3))
    elif form == "exp-minus":
        t = "%d.%sE-%d" % (d, f, rng.randint(1, 3))
    elif form == "exp-zero-padded":
        t = "%d.%se%s0%d" % (d, f, rng.choice(["", "-", "+"]), rng.randint(0, 3))
    elif form == "frac-exp":
        t = "%d.%se-%d" % (d, f, rng.randint(1, 4))
    elif form == "leading-zero":
        t = "0%d.%s0" % (d, f)
    else:
        t = "%d.%se0" % (d, f)
    val = Fraction(t)
    return ("num", t, V("float", val, ZERO, lit_err(val)), "float-" + form)


def _num_text(rng):
    """NUMBER fragment for complex literals: (text, Fraction)"""
    k = rng.random()
    if k < 0.5:
        t = str(rng.randint(0, 9))
    elif k < 0.8:
        t = "%d.%s" % (rng.randint(0, 9), rng.choice(["5", "25", "0", "75"]))
    else:
        t = "%d.%de%s%d" % (rng.randint(1, 9), rng.randint(0, 9), rng.choice(["", "-", "+"]), rng.randint(0, 1))
    return t, Fraction(t)


def _complex_lit(rng):
    it, iv = _num_text(rng)
    j = rng.choice("jjjJ")
    k = rng.random()
    if k < 0.35:
        t, re_, im, form = it + j, ZERO, iv, "complex-imag"
    elif k < 0.45:
        s = rng.choice("+-")
        t, re_, im, form = s + it + j, ZERO, (iv if s == "+" else -iv), "complex-signed-imag"
    else:
        rt, rv = _num_text(rng)
        s = rng.choice("+-")
        t, re_, im, form = rt + s + it + j, rv, (iv if s == "+" else -iv), "complex-two-part"
        if k > 0.85:
            s0 = rng.choice("+-")
            t, re_, form = s0 + t, (rv if s0 == "+" else -rv), "complex-signed-two-part"
    return ("num", t, V("complex", re_, im, lit_err(re_) + lit_err(im)), form)


PI = MP.pi + 0


def _pi_lit():
    return ("num", "pi", V("float", PI, ZERO, U * math.pi), "pi")


BIG_INTS = [2147483647, 2147483648, 4294967296, 1000000007, 9007199254740993]


def literal(rng, want="any"):
    """want: int | real | any"""
    if rng.random() < 0.03:
        v = rng.choice(BIG_INTS)                                     # beyond int32 / beyond 2**53: still exact integers
        return ("num", str(v), V("int", Fraction(v)), "int-big")
    if want == "int":
        return _int_lit(rng)
    k = rng.random()
    if want == "real":
        if k < 0.45:
            return _int_lit(rng)
        if k < 0.9:
            return _float_lit(rng)
        return _pi_lit()
    if k < 0.35:
        return _int_lit(rng)
    if k < 0.7:
        return _float_lit(rng)
    if k < 0.78:
        return _pi_lit()
    return _complex_lit(rng)


def lit_of_value(v):
    """a literal (possibly signed) node denoting the plain Python value v: used for textual unrolling"""
    if isinstance(v, bool):
        return ("lit", "True" if v else "False", V("bool", v))
    if isinstance(v, str):
        return ("lit", '"%s"' % v, V("str", v))
    if isinstance(v, int):
        n = ("num", str(abs(v)), V("int", Fraction(abs(v))), "int")
        return ("neg", n) if v < 0 else n
    if isinstance(v, float):
        t = repr(abs(v))
        n = ("num", t, V("float", Fraction(t), ZERO, lit_err(Fraction(t))), "float")
        return ("neg", n) if v < 0 or (v == 0 and math.copysign(1, v) < 0) else n
    raise TypeError(v)


# ---------------------------------------------------------------------------------------------------------------------
# expression trees
#   ("num", text, V, form)  ("lit", text, V)  ("var", name)  ("idx", name, e)  ("neg", e)  ("pos", e)  ("par", e)
#   ("bin", op, a, b)  ("fn", f, e)

PREC = {"+": 1, "-": 1, "*": 2, "/": 2, "**": 3}


def node_prec(e):
    k = e[0]
    if k == "bin":
        return PREC[e[1]]
    if k in ("neg", "pos"):
        return 4
    return 5


def _two_part(e):
    return e[0] == "num" and e[3] in ("complex-two-part",)


def _det(text):
    return sum(map(ord, text))                                      # deterministic across processes (unlike hash())


def show(e, need=0, rng=None):
    """text of e in a context that needs binding strength >= need; minimal parentheses under the stated order"""
    k = e[0]
    if k in ("num", "lit"):
        return e[1]
    if k == "var":
        return e[1]
    if k == "idx":
        return "%s[%s]" % (e[1], show(e[2]))
    if k == "par":
        return "(" + show(e[1]) + ")"
    if k == "fn":
        return "%s(%s)" % (e[1], show(e[2]))
    if k in ("neg", "pos"):
        s = "-" if k == "neg" else "+"
        c = e[1]
        if c[0] == "num" and c[3].startswith("complex") and not c[3].startswith("complex-signed"):
            # a directly attached sign would be lexed into the COMPLEX token: harmless for `2j` (same value), but it
            # changes the value of a two-part literal -> keep the sign a token of its own
            if _two_part(c):
                return s + "(" + c[1] + ")" if (_det(c[1]) & 1) else s + " " + c[1]
            return s + " " + c[1] if (_det(c[1]) % 3 == 0) else s + c[1]
        return s + show(c, 4)
    op = e[1]
    p = PREC[op]
    if op == "**":
        s = show(e[2], 4) + " ** " + show(e[3], 3)                 # right-associative; a sign binds tighter than **
    else:
        s = show(e[2], p) + " " + op + " " + show(e[3], p + 1)     # left-associative
    return "(" + s + ")" if p < need else s


def ev(e, env):
    k = e[0]
    if k in ("num", "lit"):
        return e[2]
    if k == "var":
        v = env[e[1]]
        if isinstance(v, dict):
            raise Bad("array used as scalar")
        return v
    if k == "idx":
        a = env[e[1]]
        i = ev(e[2], env)
        if i.k != "int":
            raise Bad("index kind")
        i = int(i.re)
        nr, nc = len(a["rows"]), len(a["rows"][0])
        if not (0 <= i < nr * nc):
            raise Bad("index range")
        return a["rows"][i // nc][i % nc]
    if k == "neg":
        v = ev(e[1], env)
        if v.k not in RANK:
            raise Bad("sign of non-number")
        return v_neg(v)
    if k in ("pos", "par"):
        v = ev(e[1], env)
        if k == "pos" and v.k not in RANK:
            raise Bad("sign of non-number")
        return v
    if k == "fn":
        return v_func(e[1], ev(e[2], env))
    a, b = ev(e[2], env), ev(e[3], env)
    if a.k not in RANK or b.k not in RANK:
        raise Bad("arithmetic on non-number")
    op = e[1]
    if op == "+":
        return v_addsub(a, b)
    if op == "-":
        return v_addsub(a, b, True)
    if op == "*":
        return v_mul(a, b)
    if op == "/":
        return v_div(a, b)
    return v_pow(a, b)


def subst(e, name, repl):
    """replace every occurrence of variable `name` by the node `repl` (textual unrolling)"""
    k = e[0]
    if k == "var":
        return repl if e[1] == name else e
    if k in ("num", "lit"):
        return e
    if k == "idx":
        return ("idx", e[1], subst(e[2], name, repl))
    if k in ("neg", "pos", "par"):
        return (k, subst(e[1], name, repl))
    if k == "fn":
        return ("fn", e[1], subst(e[2], name, repl))
    return ("bin", e[1], subst(e[2], name, repl), subst(e[3], name, repl))


def uses(e, name):
    k = e[0]
    if k == "var":
        return e[1] == name
    if k in ("num", "lit"):
        return False
    if k == "idx":
        return uses(e[2], name)
    if k in ("neg", "pos", "par", "fn"):
        return uses(e[-1], name)
    return uses(e[2], name) or uses(e[3], name)


class Env(dict):
    """name -> V (scalar) or {"dtype", "rows"} (array)"""

    def scalars(self, kinds):
        return [n for n, v in self.items() if not isinstance(v, dict) and v.k in kinds]

    def arrays(self, dtypes):
        return [n for n, v in self.items() if isinstance(v, dict) and v["dtype"] in dtypes]


WANT_KINDS = {"int": ("int",), "real": ("int", "float"), "any": ("int", "float", "complex")}


def _index_expr(rng, env, size, prefer=None):
    t = rng.randrange(size)
    k = rng.random()
    if prefer and k < 0.5:
        return ("var", prefer)
    if k < 0.7:
        return ("num", str(t), V("int", Fraction(t)), "int")
    if k < 0.85:
        a = rng.randint(0, t)
        return ("bin", "+", ("num", str(t - a), V("int", Fraction(t - a)), "int"), ("num", str(a), V("int", Fraction(a)), "int"))
    ints = [n for n in env.scalars(("int",)) if 0 <= env[n].re < size]
    if ints:
        return ("var", rng.choice(ints))
    return ("num", str(t), V("int", Fraction(t)), "int")


def leaf(rng, env, want, prefer=None):
    kinds = WANT_KINDS[want]
    if prefer and prefer in env and not isinstance(env[prefer], dict) and env[prefer].k in kinds and rng.random() < 0.45:
        return ("var", prefer)
    k = rng.random()
    if k < 0.28:
        names = env.scalars(kinds)
        if names:
            return ("var", rng.choice(names))
    elif k < 0.42:
        names = env.arrays(kinds)
        if names:
            n = rng.choice(names)
            a = env[n]
            return ("idx", n, _index_expr(rng, env, len(a["rows"]) * len(a["rows"][0]), prefer if prefer in env and not isinstance(env.get(prefer), dict) and env[prefer].k == "int" else None))
    return literal(rng, want)


def rand_tree(rng, env, depth, want="any", prefer=None):
    if depth <= 0 or rng.random() < 0.22:
        return leaf(rng, env, want, prefer)
    k = rng.random()
    if k < 0.10:
        return ("neg", rand_tree(rng, env, depth - 1, want, prefer))
    if k < 0.13:
        return ("pos", rand_tree(rng, env, depth - 1, want, prefer))
    if k < 0.20:
        return ("par", rand_tree(rng, env, depth - 1, want, prefer))
    if k < 0.32 and want != "int":
        return ("fn", rng.choice(FUNCS), rand_tree(rng, env, depth - 1, "real", prefer))
    if want == "int":
        op = rng.choice(["+", "-", "*", "+", "-", "*", "**"])
    else:
        op = rng.choice(["+", "-", "*", "/", "+", "-", "*", "/", "**"])
    if op == "**":
        # exponents: small (signed) integers, integer-valued floats, sometimes anything
        r = rng.random()
        if r < 0.55 or want == "int":
            ex = _int_lit(rng, 0, 4)
            if want != "int" and rng.random() < 0.35:
                ex = ("neg", ex)
        elif r < 0.7:
            ex = rng.choice([("num", "2.0", V("float", Fraction(2), ZERO, 0.0), "float-intval"), ("num", "0.5", V("float", Fraction(1, 2), ZERO, 0.0), "float-plain")])
        elif r < 0.85:
            ex = ("bin", "**", _int_lit(rng, 1, 3, False), _int_lit(rng, 0, 2, False))       # right-assoc chain a ** b ** c
        else:
            ex = rand_tree(rng, env, depth - 1, want, prefer)
        bs = rand_tree(rng, env, depth - 1, want, prefer)
        if rng.random() < 0.2:
            bs = (rng.choice(["neg", "neg", "pos"]), leaf(rng, env, want, prefer))       # -a ** b  is  (-a) ** b
        return ("bin", "**", bs, ex)
    left = rand_tree(rng, env, depth - 1, want, prefer)
    if rng.random() < 0.3 and depth >= 2:
        # same-precedence operator on the left: the value depends on left-associativity (a / b * c, a - b + c)
        op0 = rng.choice(["*", "/"] if op in "*/" and want != "int" else ["*"] if op in "*/" else ["+", "-"])
        left = ("bin", op0, rand_tree(rng, env, depth - 2, want, prefer), rand_tree(rng, env, depth - 2, want, prefer))
    return ("bin", op, left, rand_tree(rng, env, depth - 1, want, prefer))


def _ilit(v):
    return ("num", str(v), V("int", Fraction(v)), "int")


_SPECIAL_WEIGHTED = list(range(22)) + [0, 1, 2, 2, 3, 3, 3, 7, 8, 9, 12, 12]


def special_tree(rng, env):
    """the shapes hand-written examples avoid; returns (tree, label)"""
    a, b, c = rng.randint(1, 9), rng.randint(1, 5), rng.randint(1, 4)
    k = rng.choice(_SPECIAL_WEIGHTED)
    if k == 0:
        return ("bin", "/", _ilit(a * (b + c)), ("par", ("bin", "+", _ilit(b), _ilit(c)))), "div/int-computedint"
    if k == 1:
        return ("bin", "**", _ilit(rng.randint(2, 5)), ("neg", _ilit(rng.randint(1, 3)))), "pow/int-negint"
    if k == 2:
        return ("bin", "**", _ilit(rng.randint(2, 3)), ("bin", "**", _ilit(rng.randint(2, 3)), _ilit(2))), "pow/chain-right-assoc"
    if k == 3:
        return ("bin", "**", ("neg", _ilit(a)), _ilit(2)), "pow/signed-base"
    if k == 4:
        return ("bin", "*", _ilit(a), ("neg", _ilit(b))), "mul/signed-right"
    if k == 5:
        return ("bin", "/", _ilit(a), ("num", "%d.0" % b, V("float", Fraction(b), ZERO, 0.0), "float-intval")), "div/int-intvalfloat"
    if k == 6:
        return ("bin", "/", _ilit(a), ("par", ("bin", "*", _ilit(b), _ilit(c)))), "div/int-computedint"
    if k == 7:
        return ("bin", "*", ("bin", "/", _ilit(a), _ilit(b)), _ilit(c)), "mul/assoc-left"
    if k == 8:
        return ("bin", "/", ("bin", "/", _ilit(a * 8), _ilit(b)), _ilit(c)), "div/assoc-left"
    if k == 9:
        return ("bin", "-", ("bin", "-", _ilit(a), _ilit(b)), _ilit(c)), "sub/assoc-left"
    if k == 10:
        return ("bin", "+", _ilit(a), ("bin", "*", _ilit(b), ("bin", "**", _ilit(c), _ilit(2)))), "add/prec-chain"
    if k == 11:
        return ("neg", ("par", ("bin", "**", _ilit(a), _ilit(2)))), "sign/bracketed-pow"
    if k == 12:
        return ("bin", "**", _ilit(2), ("bin", "**", ("neg", _ilit(rng.randint(1, 3))), _ilit(2))), "pow/signed-exponent-chain"
    if k == 13:
        return ("neg", ("neg", _ilit(a))), "sign/double"
    if k == 14:
        return ("bin", "-", _ilit(a), ("neg", _ilit(b))), "sub/signed-right"
    if k == 15:
        return ("bin", "/", _ilit(a), ("bin", "**", _ilit(2), _ilit(c))), "div/int-computedint"
    if k == 16:
        return ("bin", "**", ("par", ("bin", "+", _ilit(a), _ilit(b))), ("neg", _ilit(1))), "pow/computedint-negint"
    if k == 17:
        return ("bin", "*", _ilit(a), ("bin", "**", _ilit(b), ("neg", _ilit(1)))), "mul/int-negpow"
    if k == 18:
        return ("bin", "-", ("bin", "*", _ilit(a), _ilit(b)), ("bin", "/", _ilit(c), _ilit(2))), "sub/prec"
    if k == 19:
        return ("bin", "/", ("par", ("bin", "-", _ilit(a), _ilit(b + 10))), ("par", ("bin", "+", _ilit(1), _ilit(c)))), "div/computedint-computedint"
    if k == 20:
        return ("bin", "**", _ilit(2), _ilit(rng.choice([31, 32, 40, 62]))), "pow/int-large"
    return ("bin", "-", ("neg", _ilit(a)), ("bin", "**", _ilit(b), _ilit(2))), "sub/signed-left-pow-right"


def gen_expr(rng, env, depth=3, want="any", prefer=None, kind=None, tries=40, mindepth=0):
    """a random well-formed, well-conditioned expression inside the domain: (tree, V).  kind: required result kind"""
    for _ in range(tries):
        e = rand_tree(rng, env, rng.randint(min(mindepth, depth), depth), want, prefer)
        if mindepth and e[0] in ("num", "var"):
            continue
        try:
            v = ev(e, env)
        except (Bad, OverflowError, ZeroDivisionError, ValueError):
            continue
        if not well_conditioned(v):
            continue
        if kind is not None and v.k != kind:
            continue
        if want == "int" and v.k != "int":
            continue
        if want == "real" and v.k == "complex":
            continue
        return e, v
    e = _int_lit(rng, 0, 5, False) if want == "int" or kind == "int" else (_float_lit(rng) if kind == "float" else literal(rng, want))
    if kind == "complex" and e[2].k != "complex":
        e = _complex_lit(rng)
    return e, e[2]


def classify(e, env):
    """coarse shape of the expression root / operators involved"""
    k = e[0]
    if k == "num":
        return "literal/" + e[3]
    if k == "lit":
        return "literal/" + e[2].k
    if k == "var":
        return "var/" + env[e[1]].k
    if k == "idx":
        return "index/" + env[e[1]]["dtype"] + ("" if e[2][0] == "num" else "-computed")
    if k in ("neg", "pos"):
        return "sign/" + classify(e[1], env).split("/")[0]
    if k == "par":
        return "brackets/" + classify(e[1], env).split("/")[0]
    if k == "fn":
        return "fn/" + e[1]
    op = e[1]
    name = {"+": "add", "-": "sub", "*": "mul", "/": "div", "**": "pow"}[op]
    try:
        a, b = ev(e[2], env), ev(e[3], env)
        ka, kb = a.k, b.k
        if op == "/" and kb == "int" and e[3][0] != "num":
            kb = "computedint"
        elif op == "/" and kb == "float" and is_intval(b):
            kb = "intvalfloat"
        elif op == "**" and kb == "int" and b.re < 0:
            kb = "negint"
    except Exception:
        ka = kb = "?"
    extra = ""
    pa, pb = node_prec(e[2]), node_prec(e[3])
    p = PREC[op]
    if (op == "**" and pb == 3) or (op != "**" and pa == p):
        extra = "/assoc"
    elif pa < 4 or pb < 4:
        extra = "/prec"
    elif pa == 4 or pb == 4:
        extra = "/signed-operand"
    return "%s/%s-%s%s" % (name, ka, kb, extra)


# ---------------------------------------------------------------------------------------------------------------------
# name pools (deliberately: mixed case, dotted devices, names that are prefixes of one another, keyword look-alikes)

VAR_NAMES = ["a", "ab", "abc", "x", "x1", "x_1", "n", "N", "alpha", "Alpha", "ina", "pix", "e1", "sq", "q", "qa", "tdm1",
             "array1", "int_1", "floaty", "sinx", "expo", "j", "J", "forx", "piq", "Truex", "z", "zz", "y", "w0"]
ARR_NAMES = ["A", "AB", "B", "M", "M1", "m_2", "U", "arr", "A1", "Ab", "c", "cc", "logs"]
LOOP_NAMES = ["i", "k", "m", "idx", "ii", "t", "bb", "s", "i_1", "inn"]
OP_NAMES = ["Sgate", "BSgate", "Dgate", "Rgate", "Vac", "Vacuum", "Coherent", "Fock", "U2", "S", "S2", "s", "sg", "Interferometer",
            "MeasureX", "MeasureP", "MeasureHomodyne", "MeasureFock", "Measure", "MeasureHD", "Measure_1", "sinhgate", "intgate"]
KW_NAMES = ["phi", "select", "a", "ab", "k", "dark_counts", "r", "x", "n", "Phi", "arg_1"]
OPT_NAMES = ["shots", "cutoff_dim", "tag", "flag", "eps", "a", "ab", "lst", "backend"]
PROG_NAMES = ["prog", "a", "ab", "Test_1", "sinx", "name1", "StateTeleportation", "x", "version2", "t0", "Q", "forloop"]
DEVICES = ["X8_01", "Gaussian.v2", "gaussian", "fock", "dev_1", "X12", "a.b.c", "TD2", "chip0", "Chip0", "X8", "x8", "tf", "_sim", "8x", "1a", "v.1"]
TYPES = ["tdm", "custom", "Custom", "A", "ab", "batch_1"]
VERSIONS = ["1.0", "0.3", "1.00", "01.0", "2.5", "1e1", "0.10", "10.01", "1.0E0"]
STRINGS = ["abc", "ab c", "", "a #b", "a  b", "x=1, y", "Sgate(1) | 0", "tab\there", "1.5", "True", "a'b", "[1, 2]", "é"]
COMMENTS = ["# c", "#", "# Sgate(1) | 0", "#name x", "# \"quote", "#    four spaces", "# tab\there", "## x #", "# é", "# 1,2", "#\t"]

for _n in VAR_NAMES + ARR_NAMES + LOOP_NAMES + KW_NAMES + OPT_NAMES + PROG_NAMES + TYPES:
    assert _n not in KEYWORDS and not re.fullmatch(r"q\d+|Measure[A-Za-z]*|p\d+", _n), _n


# ---------------------------------------------------------------------------------------------------------------------
# abstract statements / programs

def _val_nonnumeric(rng):
    if rng.random() < 0.5:
        b = rng.random() < 0.5
        return ("lit", "True" if b else "False", V("bool", b))
    s = rng.choice(STRINGS)
    return ("lit", '"%s"' % s, V("str", s))


def gen_val(rng, env, depth, prefer=None, numeric_only=False):
    """a `val`: expression or nonnumeric literal / bool-str variable"""
    k = rng.random()
    if not numeric_only and k < 0.12:
        return _val_nonnumeric(rng)
    if not numeric_only and k < 0.2:
        names = env.scalars(("bool", "str"))
        if prefer in names and rng.random() < 0.7:
            return ("var", prefer)
        if names:
            return ("var", rng.choice(names))
    if prefer in env and not isinstance(env[prefer], dict) and env[prefer].k in ("bool", "str"):
        return ("var", prefer) if rng.random() < 0.6 else _val_nonnumeric(rng)
    if rng.random() < 0.12:
        e, _ = special_tree(rng, env)
        return e
    return gen_expr(rng, env, depth, "any", prefer)[0]


def gen_mode(rng, env, prefer=None, maxmode=12):
    """an integer-kind expression with a small non-negative value"""
    for _ in range(30):
        k = rng.random()
        if prefer and k < 0.6:
            r = rng.random()
            if r < 0.5:
                e = ("var", prefer)
            elif r < 0.8:
                e = ("bin", "+", ("var", prefer), _int_lit(rng, 0, 3, False))
            elif r < 0.9:
                e = ("bin", "*", _int_lit(rng, 1, 2, False), ("var", prefer))
            else:
                e = ("bin", "+", _int_lit(rng, 0, 2, False), ("bin", "*", ("var", prefer), _int_lit(rng, 1, 2, False)))
        elif k < 0.62 or (k < 0.75 and not env):
            e = _int_lit(rng, 0, 9)
        elif k < 0.72:
            e = ("bin", rng.choice("+*"), _int_lit(rng, 0, 3, False), _int_lit(rng, 1, 3, False))      # computed (NumPy-kind) mode
        elif k < 0.76:
            e = ("bin", "*", ("par", ("bin", "+", _int_lit(rng, 0, 2, False), _int_lit(rng, 1, 2, False))), _int_lit(rng, 1, 2, False))
        elif k < 0.9:
            names = env.scalars(("int",))
            if not names:
                continue
            e = ("var", rng.choice(names))
            if rng.random() < 0.3:
                e = ("bin", "+", e, _int_lit(rng, 0, 2, False))
        else:
            names = env.arrays(("int",))
            if not names:
                continue
            n = rng.choice(names)
            e = ("idx", n, _index_expr(rng, env, len(env[n]["rows"]) * len(env[n]["rows"][0])))
        try:
            v = ev(e, env)
        except Bad:
            continue
        if v.k == "int" and 0 <= v.re <= maxmode:
            return e
    return _int_lit(rng, 0, 9, False)


class Stmt:
    """op [ (args, kwargs) ] | modes ; kwargs: list of (key, val) or (key, ("list", [vals]))"""
    __slots__ = ("op", "has_args", "args", "kwargs", "modes", "style")

    def text(self):
        s = self.op
        if self.has_args:
            parts = [show(a) for a in self.args]
            for k, v in self.kwargs:
                if v[0] == "list":
                    parts.append("%s=[%s]" % (k, ", ".join(show(x) for x in v[1])))
                else:
                    parts.append("%s=%s" % (k, show(v)))
            s += "(" + ", ".join(parts) + ")"
        m = ", ".join(show(x) for x in self.modes)
        if self.style:
            m = self.style[0] + m + self.style[1]
        return s + " | " + m

    def denote(self, env):
        modes = []
        for m in self.modes:
            v = ev(m, env)
            if v.k != "int" or v.re < 0:
                raise Bad("mode")
            modes.append(int(v.re))
        d = {"op": self.op, "modes": modes}
        if self.has_args:
            args = []
            for a in self.args:
                v = ev(a, env)
                if not well_conditioned(v):
                    raise Bad("ill-conditioned")
                args.append(enc(v))
            kw = []
            for k, v in self.kwargs:
                if v[0] == "list":
                    vs = [ev(x, env) for x in v[1]]
                    if not all(well_conditioned(x) for x in vs):
                        raise Bad("ill-conditioned")
                    kw.append([k, [enc(x) for x in vs]])
                else:
                    x = ev(v, env)
                    if not well_conditioned(x):
                        raise Bad("ill-conditioned")
                    kw.append([k, enc(x)])
            d["args"], d["kwargs"] = args, kw
        return d

    def subst(self, name, repl):
        s = Stmt()
        s.op, s.has_args, s.style = self.op, self.has_args, self.style
        s.args = [subst(a, name, repl) for a in self.args]
        s.kwargs = [(k, ("list", [subst(x, name, repl) for x in v[1]]) if v[0] == "list" else subst(v, name, repl)) for k, v in self.kwargs]
        s.modes = [subst(m, name, repl) for m in self.modes]
        return s

    def uses(self, name):
        for a in self.args + self.modes:
            if uses(a, name):
                return True
        for _, v in self.kwargs:
            if any(uses(x, name) for x in (v[1] if v[0] == "list" else [v])):
                return True
        return False


def gen_stmt(rng, env, depth=2, prefer=None, mode_prefer=None):
    s = Stmt()
    s.op = rng.choice(OP_NAMES)
    nm = rng.choice([1, 1, 1, 2, 2, 3])
    s.modes = [gen_mode(rng, env, mode_prefer if rng.random() < 0.7 else None) for _ in range(nm)]
    s.style = rng.choice(["[]", "()", "", ""]) if nm == 1 else rng.choice(["[]", "()", ""])
    if s.style == "" and nm > 0 and show(s.modes[0]).startswith("(") and rng.random() < 0.5:
        s.style = "[]"
    s.args, s.kwargs = [], []
    s.has_args = rng.random() < 0.8
    if s.has_args:
        for _ in range(rng.choice([0, 1, 1, 2, 2, 3])):
            s.args.append(gen_val(rng, env, depth, prefer))
        keys = rng.sample(KW_NAMES, rng.choice([0, 0, 1, 1, 2, 3]))
        for k in keys:
            if rng.random() < 0.3:
                s.kwargs.append((k, ("list", [gen_val(rng, env, 1, prefer) for _ in range(rng.randint(1, 3))])))
            else:
                s.kwargs.append((k, gen_val(rng, env, depth, prefer)))
    return s


def gen_stmt_ok(rng, env, depth=2, prefer=None, mode_prefer=None, envs=None, must_use=None):
    """a statement that denotes something under every environment in envs (default: env)"""
    envs = envs or [env]
    for _ in range(40):
        s = gen_stmt(rng, env, depth, prefer, mode_prefer)
        if must_use and not s.uses(must_use):
            continue
        try:
            for e2 in envs:
                s.denote(e2)
        except (Bad, OverflowError, ZeroDivisionError, ValueError, KeyError):
            continue
        return s
    s = Stmt()
    s.op, s.has_args, s.args, s.kwargs, s.style = "Vac", False, [], [], ""
    s.modes = [_int_lit(rng, 0, 9, False)]
    if must_use and prefer:
        s.op, s.has_args = "Op", True
        s.args = [("var", prefer)]
    return s


class Prog:
    """lines: [(kind, text)], kind in meta|blank|decl|arrhead|arrrow|stmt|loophead|loopbody ; expected: plain data ;
    unrolled: lines of the textually unrolled script ; feats: set of feature tags ; env: final environment"""

    def __init__(self):
        self.lines, self.unrolled, self.feats = [], [], set()
        self.expected = {"name": None, "version": None, "target": {"name": None, "options": []}, "type": {"name": None, "options": []},
                         "operations": [], "variables": []}
        self.env = Env()

    def add(self, kind, text, both=True):
        self.lines.append((kind, text))
        if both:
            self.unrolled.append((kind, text))

    def script(self):
        return "\n".join(t for _, t in self.lines) + "\n"

    def unrolled_script(self):
        return "\n".join(t for _, t in self.unrolled) + "\n"


def _gen_options(rng):
    """metadata options: evaluated before any variable exists -> literals and closed expressions only"""
    env = Env()
    opts, parts = [], []
    for k in rng.sample(OPT_NAMES, rng.choice([1, 1, 2, 3, 4])):
        r = rng.random()
        if r < 0.25:
            v = _val_nonnumeric(rng)
            parts.append("%s=%s" % (k, show(v)))
            opts.append([k, enc(v[2])])
        elif r < 0.4:
            vs = [gen_val(rng, env, 1) for _ in range(rng.randint(1, 3))]
            parts.append("%s=[%s]" % (k, ", ".join(show(x) for x in vs)))
            opts.append([k, [enc(ev(x, env)) for x in vs]])
        else:
            e, v = gen_expr(rng, env, 1, "any") if rng.random() < 0.5 else (lambda l: (l, l[2]))(_int_lit(rng, 1, 100))
            parts.append("%s=%s" % (k, show(e)))
            opts.append([k, enc(v)])
    return " (" + ", ".join(parts) + ")", opts


def gen_metadata(rng, prog, minimal=False):
    name, ver = rng.choice(PROG_NAMES), rng.choice(VERSIONS)
    prog.add("meta", "name " + name)
    if not minimal and rng.random() < 0.1:
        prog.add("blank", "")
    prog.add("meta", "version " + ver)
    prog.expected["name"], prog.expected["version"] = name, ver
    if not minimal and rng.random() < 0.55:
        dev = rng.choice(DEVICES)
        text, opts = ("", [])
        if rng.random() < 0.55:
            text, opts = _gen_options(rng)
            prog.feats.add("target-options")
        prog.add("meta", "target " + dev + text)
        prog.expected["target"] = {"name": dev, "options": opts}
        prog.feats.add("target")
    if not minimal and rng.random() < 0.3:
        ty = rng.choice(TYPES)
        text, opts = ("", [])
        if rng.random() < 0.6:
            text, opts = _gen_options(rng)
        prog.add("meta", "type " + ty + text)
        prog.expected["type"] = {"name": ty, "options": opts}
        prog.feats.add("type")


def _free_name(rng, pool, prog, extra=()):
    cands = [n for n in pool if n not in prog.env and n not in extra]
    return rng.choice(cands) if cands else None


def gen_scalar(rng, prog, t=None, depth=2):
    """typed scalar declaration with a type-compatible, parameter-free initialiser; returns the class label or None"""
    env = prog.env
    name = _free_name(rng, VAR_NAMES, prog)
    if name is None:
        return None
    t = t or rng.choice(["int", "int", "float", "float", "complex", "bool", "str"])
    if t == "int":
        e, v = gen_expr(rng, env, depth, "int")
        if rng.random() < 0.5 and not (0 <= v.re <= 9):               # keep many ints usable as modes / indices
            e = _int_lit(rng, 0, 6)
            v = e[2]
        src = "int"
    elif t == "float":
        e, v = gen_expr(rng, env, depth, "real")
        src = v.k
    elif t == "complex":
        e, v = gen_expr(rng, env, depth, "any")
        src = v.k
    else:
        names = env.scalars((t,))
        if names and rng.random() < 0.15:
            e = ("var", rng.choice(names))
        else:
            while True:
                e = _val_nonnumeric(rng)
                if e[2].k == t:
                    break
        v = ev(e, env)
        src = t
    v = cast(v, t)
    prog.add("decl", "%s %s = %s" % (t, name, show(e)))
    env[name] = v
    prog.expected["variables"].append([name, enc(v)])
    prog.feats.add("scalars")
    return "scalar/%s-from-%s" % (t, src)


def gen_array(rng, prog, t=None, shape_decl=None, rows=None, cols=None, depth=1):
    env = prog.env
    name = _free_name(rng, ARR_NAMES, prog)
    if name is None:
        return None
    t = t or rng.choice(["int", "float", "complex"])
    r = rows or rng.choice([1, 1, 2, 2, 3, 4])
    c = cols or rng.choice([1, 2, 2, 3, 3, 4])
    if shape_decl is None:
        shape_decl = rng.random() < 0.5
    want = {"int": "int", "float": "real", "complex": "any"}[t]
    trees, vals = [], []
    for _ in range(r):
        tr, vr = [], []
        for _ in range(c):
            e, v = gen_expr(rng, env, depth, want)
            if t == "int" and rng.random() < 0.6 and not (0 <= v.re <= 9):
                e = _int_lit(rng, 0, 8)
                v = e[2]
            tr.append(e)
            vr.append(cast(v, t))
        trees.append(tr)
        vals.append(vr)
    prog.add("arrhead", "%s array %s%s =" % (t, name, "[%d, %d]" % (r, c) if shape_decl else ""))
    for tr in trees:
        prog.add("arrrow", "    " + ", ".join(show(e) for e in tr))
    env[name] = {"dtype": t, "rows": vals}
    prog.expected["variables"].append([name, enc(env[name])])
    prog.feats.add("arrays")
    return "array/%s/%s" % (t, "shape" if shape_decl else "noshape")


def add_stmt(rng, prog, depth=2):
    s = gen_stmt_ok(rng, prog.env, depth)
    prog.add("stmt", s.text())
    prog.expected["operations"].append(s.denote(prog.env))
    if s.op.startswith("Measure"):
        prog.feats.add("measure")
    return s


def plain(v):
    """exact V -> plain Python value after conversion (what the loop variable is bound to)"""
    j = enc(v)
    return j


def gen_loop(rng, prog, header=None, nbody=None, depth=2):
    """for-loop with a multi-statement body using the loop variable; appends loop lines to prog.lines and the textual
    unrolling to prog.unrolled; returns the class label"""
    env = prog.env
    var = _free_name(rng, LOOP_NAMES, prog)
    header = header or rng.choice(["range2", "range3", "range-empty", "range-float", "list-int", "list-int", "list-int-expr",
                                   "list-float", "list-bool", "list-str", "list-convert"])
    cls = header
    if header.startswith("range"):
        t = "float" if header == "range-float" else "int"
        if header == "range-empty":
            a, b, c = rng.choice([(0, 0, 1), (2, 2, 1), (3, 1, 1), (5, 2, 2), (4, 4, 3), (1, 0, 1)])
            three = rng.random() < 0.5
            if not three:
                c = 1
        else:
            a, c = rng.randint(0, 3), rng.randint(1, 3)
            b = a + rng.randint(1, 6)
            three = header == "range3" or (header == "range-float" and rng.random() < 0.5)
            if not three:
                c = 1
                b = min(b, a + 4)
        pad = lambda n: ("0" + str(n)) if rng.random() < 0.08 else str(n)
        htext = "%s:%s:%s" % (pad(a), pad(b), pad(c)) if three else "%s:%s" % (pad(a), pad(b))
        values = []
        x = a
        while x < b:                                                 # a, a+c, ... below b
            values.append(V("int", Fraction(x)))
            x += c
        values = [cast(v, t) for v in values]
        if three:
            cls += "/step"
    else:
        t = {"list-int": "int", "list-int-expr": "int", "list-float": "float", "list-bool": "bool", "list-str": "str",
             "list-convert": rng.choice(["int", "float"])}[header]
        n = rng.randint(1, 3)
        items = []
        for _ in range(n):
            if header == "list-int":
                e = _int_lit(rng, 0, 6)
                if rng.random() < 0.1:
                    e = ("neg", _int_lit(rng, 1, 3, False))
            elif header == "list-int-expr":
                e, _ = gen_expr(rng, env, 2, "int")
                if not (0 <= ev(e, env).re <= 8) and rng.random() < 0.7:
                    e = ("bin", "+", _int_lit(rng, 0, 3, False), _int_lit(rng, 0, 3, False))
            elif header == "list-float":
                e, _ = gen_expr(rng, env, 1, "real", kind="float")
            elif header == "list-bool":
                e = ("lit", "True", V("bool", True)) if rng.random() < 0.5 else ("lit", "False", V("bool", False))
            elif header == "list-str":
                s = rng.choice(STRINGS)
                e = ("lit", '"%s"' % s, V("str", s))
            elif t == "int":                                        # integer-valued float in an int list: converted
                e = rng.choice([("num", "%d.0" % rng.randint(0, 5), None, "float-intval"), ("num", "%de0" % rng.randint(0, 5), None, "float-exp")])
                e = ("num", e[1], V("float", Fraction(e[1]), ZERO, 0.0), e[3])
                if rng.random() < 0.3:
                    e = ("bin", "/", _ilit(rng.choice([4, 6, 8])), _ilit(2))
            else:                                                   # int in a float list: converted
                e = _int_lit(rng, 0, 9)
            items.append(e)
        style = rng.choice(["[]", "()", ""])
        htext = ", ".join(show(e) for e in items)
        if style:
            htext = style[0] + htext + style[1]
        cls += {"[]": "/bracket", "()": "/paren", "": "/bare"}[style]
        values = []
        for e in items:
            v = ev(e, env)
            if header == "list-convert" and t == "int":
                v = V("int", v.re)
            else:
                v = cast(v, t)
            values.append(v)
    # body
    nbody = nbody or rng.choice([1, 2, 2, 3])
    envs = []
    for v in (values or [cast(V("int", Fraction(0)), t) if t in ("int", "float") else V(t, True if t == "bool" else "s")]):
        e2 = Env(env)
        e2[var] = v
        envs.append(e2)
    int_nonneg = t == "int" and all(v.re >= 0 for v in values)
    body = []
    for bi in range(nbody):
        s = gen_stmt_ok(rng, envs[0], depth, prefer=var, mode_prefer=var if int_nonneg else None, envs=envs,
                        must_use=var if bi == 0 or rng.random() < 0.7 else None)
        body.append(s)
    prog.add("loophead", "for %s %s in %s" % (t, var, htext), both=False)
    for s in body:
        prog.add("loopbody", "    " + s.text(), both=False)
    for v, e2 in zip(values, envs):
        repl = lit_of_value(plain(v))
        for s in body:
            prog.expected["operations"].append(s.denote(e2))
            prog.unrolled.append(("stmt", s.subst(var, repl).text()))
    prog.feats.add("loop")
    if not values:
        prog.feats.add("loop-empty")
    return cls, var, t, values


def gen_program(rng, max_items=7, loops=True, minimal_meta=False, depth=2, p_blank=0.15):
    """a random abstract program (<= ~12 statements) -> Prog"""
    prog = Prog()
    gen_metadata(rng, prog, minimal_meta)
    if rng.random() < 0.7:
        prog.add("blank", "")
    n_loops = 0
    nitems = rng.randint(1, max_items)
    for _ in range(nitems):
        if len(prog.lines) > 18:
            break
        k = rng.random()
        if k < 0.22:
            gen_scalar(rng, prog, depth=depth)
        elif k < 0.37:
            gen_array(rng, prog, rows=rng.choice([1, 2, 2, 3]), cols=rng.choice([1, 2, 3]))
        elif k < 0.52 and loops and n_loops < 2:
            gen_loop(rng, prog, depth=depth)
            n_loops += 1
        else:
            add_stmt(rng, prog, depth)
        if rng.random() < p_blank:
            prog.add("blank", "")
    if not prog.expected["operations"] and rng.random() < 0.8:
        add_stmt(rng, prog, depth)
    return prog


# ---------------------------------------------------------------------------------------------------------------------
# tokeniser for generated text (mirrors the lexer's longest-match on the subset we emit) + layout edits (C18)

_NUM = r"\d+(?:\.\d+)?(?:[eE][+-]?\d+)?"
_TOKEN_PATTERNS = [
    ("COMPLEX", re.compile(r"[+-]?(?:%s[+-])?%s[jJ]" % (_NUM, _NUM))),
    ("NUMBER", re.compile(_NUM)),
    ("SEQUENCE", re.compile(r"%s(?:,%s)+" % (_NUM, _NUM))),
    ("STR", re.compile(r'"[^"\n\r]*"')),
    ("WORD", re.compile(r"[0-9A-Za-z._]+")),
    ("PWR", re.compile(r"\*\*")),
    ("PUNCT", re.compile(r"[^\s]")),
]


def tokenize(line):
    """[(type, text, gap)] : gap = number of blanks in front of the token"""
    out, pos, n = [], 0, len(line)
    while pos < n:
        gap = 0
        while pos < n and line[pos] in " \t":
            pos += 1
            gap += 1
        if pos >= n:
            break
        best = None
        for name, pat in _TOKEN_PATTERNS:
            m = pat.match(line, pos)
            if m and m.end() > pos and (best is None or m.end() > best[1]):
                best = (name, m.end())
        out.append((best[0], line[pos:best[1]], gap))
        pos = best[1]
    return out


def layout_variant(rng, lines, force_array_tail=False):
    """apply a random combination of the layout edits of C18 to a script given as [(kind, text)];
    returns (text, list of edit tags, last_line_is_array_row_without_final_newline)"""
    edits = set()
    out = []                                                        # [(kind, text)]
    indent_kinds = ("arrrow", "loopbody")
    p_space = rng.choice([0.0, 0.15, 0.5])
    p_comment = rng.choice([0.0, 0.15, 0.4])
    p_line = rng.choice([0.0, 0.15, 0.35])
    tab_mode = rng.choice(["spaces", "tab", "mixed"])

    def filler():
        if rng.random() < 0.5:
            edits.add("blank-line")
            return ("blank", "")
        edits.add("comment-line")
        return ("comment", rng.choice(COMMENTS))

    # blank / comment lines before the metadata
    while rng.random() < p_line:
        out.append(filler())
    prev_kind = None
    for kind, text in lines:
        # own-line blanks/comments: not inside array bodies, not between a loop header and its first body line
        if prev_kind is not None and kind != "arrrow" and not (kind == "loopbody" and prev_kind == "loophead"):
            while rng.random() < p_line:
                out.append(filler())
        if kind == "blank":
            out.append((kind, text))
            prev_kind = kind
            continue
        ind = ""
        body = text
        if kind in indent_kinds:
            assert text.startswith("    "), text
            body = text[4:]
            ind = "    "
            if tab_mode == "tab" or (tab_mode == "mixed" and rng.random() < 0.5):
                ind = "\t"
                edits.add("tab-indent")
        toks = tokenize(body)
        assert not any(t[0] == "SEQUENCE" for t in toks), body
        s = ""
        for i, (_, tt, gap) in enumerate(toks):
            if i > 0:
                if gap > 0:
                    g = 1
                    if rng.random() < p_space:
                        g = rng.randint(1, 3)
                        edits.add("spaces")
                else:
                    g = 0
                    if rng.random() < p_space * 0.6:
                        g = rng.randint(1, 3)
                        edits.add("spaces-inserted")
                s += " " * g
            s += tt
        if rng.random() < p_comment:
            s += " " * rng.randint(0, 3) + rng.choice(COMMENTS)
            edits.add("comment-eol" + ("-array-row" if kind == "arrrow" else ""))
        elif rng.random() < p_space:
            s += " " * rng.randint(1, 3)
            edits.add("trailing-spaces")
        out.append((kind, ind + s))
        prev_kind = kind
    while not force_array_tail and rng.random() < p_line:
        out.append(filler())
    tail_is_row = out[-1][0] == "arrrow"
    nl = rng.choice(["\n", "\n", "\r\n", "\r"])
    if nl != "\n":
        edits.add({"\r\n": "crlf", "\r": "cr"}[nl])
    final_newline = True
    if force_array_tail:
        final_newline = False
    elif not tail_is_row and rng.random() < 0.4:
        final_newline = False
    if not final_newline:
        edits.add("no-final-newline")
    text = nl.join(t for _, t in out) + (nl if final_newline else "")
    return text, sorted(edits), (tail_is_row and not final_newline)


# ---------------------------------------------------------------------------------------------------------------------
# reference reader of the *stated* binding order (self-test of the printer: text -> value must equal tree -> value)

class _Ref:
    def __init__(self, text, env):
        self.t = [(a, b) for a, b, _ in tokenize(text)]
        self.i = 0
        self.env = env

    def peek(self):
        return self.t[self.i][1] if self.i < len(self.t) else None

    def take(self):
        self.i += 1
        return self.t[self.i - 1]

    def add(self):
        v = self.mul()
        while self.peek() in ("+", "-"):
            op = self.take()[1]
            v = v_addsub(v, self.mul(), op == "-")
        return v

    def mul(self):
        v = self.pow()
        while self.peek() in ("*", "/"):
            op = self.take()[1]
            w = self.pow()
            v = v_mul(v, w) if op == "*" else v_div(v, w)
        return v

    def pow(self):
        v = self.sign()
        if self.peek() == "**":
            self.take()
            return v_pow(v, self.pow())
        return v

    def sign(self):
        if self.peek() in ("+", "-"):
            op = self.take()[1]
            v = self.sign()
            return v_neg(v) if op == "-" else v
        return self.atom()

    def atom(self):
        ty, tx = self.take()
        if tx == "(":
            v = self.add()
            assert self.take()[1] == ")"
            return v
        if ty == "COMPLEX":
            m = re.fullmatch(r"([+-]?)(?:(%s)([+-]))?(%s)[jJ]" % (_NUM, _NUM), tx)
            s0, rp, s1, ip = m.groups()
            re_ = Fraction(rp) if rp else ZERO
            im = Fraction(ip)
            if rp:
                re_, im = (-re_ if s0 == "-" else re_), (-im if s1 == "-" else im)
            else:
                im = -im if s0 == "-" else im
            return V("complex", re_, im, lit_err(re_) + lit_err(im))
        if ty == "NUMBER":
            if re.fullmatch(r"\d+", tx):
                return V("int", Fraction(int(tx)))
            return V("float", Fraction(tx), ZERO, lit_err(Fraction(tx)))
        assert ty == "WORD", (ty, tx)
        if tx == "pi":
            return V("float", PI, ZERO, U * math.pi)
        if tx in FUNCS:
            assert self.take()[1] == "("
            v = self.add()
            assert self.take()[1] == ")"
            return v_func(tx, v)
        if self.peek() == "[":
            self.take()
            i = self.add()
            assert self.take()[1] == "]"
            a = self.env[tx]
            nc = len(a["rows"][0])
            return a["rows"][int(i.re) // nc][int(i.re) % nc]
        return self.env[tx]


def ref_value(text, env):
    r = _Ref(text, env)
    v = r.add()
    assert r.i == len(r.t), (text, r.t[r.i:])
    return v


def selftest(n=3000, seed=0):
    import random
    rng = random.Random(seed)
    env = Env()
    env["n"] = V("int", Fraction(3))
    env["ab"] = V("float", Fraction(5, 4), ZERO, 0.0)
    env["z"] = V("complex", Fraction(1), Fraction(-2), 0.0)
    env["A"] = {"dtype": "int", "rows": [[V("int", Fraction(r * 3 + c)) for c in range(3)] for r in range(2)]}
    bad = 0
    for i in range(n):
        e, v = (gen_expr(rng, env, 4, "any") if i % 5 else (lambda t: (t[0], ev(t[0], env)))(special_tree(rng, env)))
        text = show(e)
        w = ref_value(text, env)
        same = v.k == w.k and abs(complex(float(v.re), float(v.im)) - complex(float(w.re), float(w.im))) <= 1e-14 * max(1, mag(v))
        if not same:
            bad += 1
            print("MISMATCH", text, enc(v), enc(w))
    for _ in range(300):
        p = gen_program(rng)
        for kind, text in p.lines:
            for ty, tx, _ in tokenize(text):
                assert ty != "SEQUENCE", text
    print("selftest: %d expressions, %d mismatches" % (n, bad))
    return bad


if __name__ == "__main__":
    import sys
    sys.exit(1 if selftest(int(sys.argv[1]) if len(sys.argv) > 1 else 3000) else 0)
