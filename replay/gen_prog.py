"""Generators and recipe builders for replay/fam_prog.py (program-level witness families).

Self-contained on purpose: own small pools, no dependency on the other replay generators.  Everything that a check()
needs to rebuild (values, programs assembled through the API, include trees) is described by JSON-able *recipes*;
`build_value` / `build_program` turn a recipe into objects.

Tokenisation facts of src/blackbird.g4 respected by every printer here:
  * always ", " after a comma (`1,2` is one SEQUENCE token);
  * binary operators are printed with blanks on both sides and two-part complex literals inside expressions are
    parenthesised (`x-1j` would lex as NAME COMPLEX);
  * names avoid keywords, type names, function names, `pi`, `True`/`False`, `q<digits>` and `Measure…`.
"""
import keyword

RESERVED = {"name", "version", "target", "type", "include", "for", "in", "array", "float", "complex", "int", "str", "bool",
            "pi", "True", "False", "sqrt", "sin", "cos", "tan", "arcsin", "arccos", "arctan", "sinh", "cosh", "tanh",
            "arcsinh", "arccosh", "arctanh", "exp", "log"}


def usable_name(n):
    if n in RESERVED or keyword.iskeyword(n) or n.startswith("Measure"):
        return False
    if n[0] == "q" and n[1:].isdigit():
        return False
    return n[0].isalpha() and all(c.isalnum() or c == "_" for c in n) and n.isascii()


GATES = ["Sgate", "Dgate", "BSgate", "Rgate", "Vac", "Coherent", "Xgate", "Zgate", "S2gate", "Kgate", "MZgate", "Fock",
         "Interferometer", "GaussianTransform", "G", "H1", "op_2", "CXgate", "Vgate", "Thermal", "LossChannel", "sq"]
MEASURES = ["MeasureX", "MeasureP", "MeasureFock", "MeasureHomodyne", "MeasureHD", "Measure", "MeasureThreshold"]
PROG_NAMES = ["prog", "test_prog", "Circuit1", "a", "GBS_run_2", "template_td3", "Main", "x_y_z"]
VERSIONS = ["1.0", "0.0", "0.3", "12.5", "1.0", "1.0", "2e3", "007.50"]
DEVICES = ["X8_01", "gaussian", "TD3_fake", "borealis.v1", "Fock", "chip0", "fock.v2", "X12", "simulon_gaussian", "3x"]
TYPE_NAMES = ["gbs", "standard", "TDM", "sampling"]
OPTION_KEYS = ["shots", "cutoff_dim", "hbar", "backend", "temporal_modes", "copies", "flag", "label", "dims", "k", "opt_1"]
KW_KEYS = ["select", "phi", "k", "dark_counts", "label", "flag", "opt", "U", "r", "mode_list", "kw_2"]
# parameter names: prefixes of one another, p-type look-alikes, one-letter names that clash with SymPy globals
PARAM_NAMES = ["a", "ab", "a1", "abc", "b", "alpha", "phi", "theta", "r", "p_one", "x1", "E", "I", "N", "S", "Q", "p1", "p10", "e",
               "aa", "a_b", "beta", "t", "tt", "phi2", "x", "xy", "gamma_1"]
VAR_NAMES = ["n", "m", "x", "y", "z", "w", "alpha", "s1", "flag", "U", "A", "B", "M", "vec", "val_2", "c", "d", "big", "lbl", "bb"]
LOOP_NAMES = ["i", "j", "k", "idx", "mm"]
STRINGS = ["", "hello", "a b", "fock", "it's", "x#y", "semi;colon", "a, b", "pipe | 0", "[1, 2]", "{a}", "back\\slash", " lead", "trail ",
           "CamelCase", "1e5", "True", "q0", "p0", "name", "tab4    here", "éß", "(paren)", "k=v"]

# --- literal pools (texts) -----------------------------------------------------------------------------------------
INT_TAME = ["0", "1", "2", "3", "5", "7", "10", "42", "255", "1000", "007"]
INT_BIG = ["4611686018427387904", "9223372036854775807", "1000000000000000000", "1180591620717411303424"]
FLOAT_TAME = ["0.5", "1.0", "2.5", "0.1", "3.14159", "1e-3", "1E-3", "2.5e2", "1e+2", "0.30000000000000004", "00.5", "1.5", "0.25",
              "12.75", "1e0", "7.0"]
FLOAT_EXTREME = ["0.0", "1e22", "1e-07", "1e-7", "5e-324", "1.7976931348623157e308", "1e300", "1e-300", "123456789.123456789",
                 "1e16", "9007199254740993.0", "2.2250738585072014e-308", "1.5E+300", "4.9e-324"]
COMPLEX_LITS = ["1+2j", "0.5-1.5j", "3j", "1e-3+2.5e2j", "0j", "2.0J", "1-1j", "0.1+0.2j", "2+0j", "1e300-1e-300j", "0.0+5e-324j", "7-3J"]
COMPLEX_TAME = ["1+2j", "0.5-1.5j", "3j", "0j", "2.0J", "1-1j", "0.1+0.2j", "2+0j"]
COMPLEX_SIGNED = ["-1+2j", "-3j", "+2j", "-0.5-1.5j", "-0.0+1j", "+1-1j", "-1e22-1e-07j"]


def pick(rng, seq):
    return seq[rng.randrange(len(seq))]


def names(rng, pool, k, avoid=()):
    """k distinct usable names from pool (then invented ones), avoiding `avoid`"""
    out = []
    cand = [n for n in pool if usable_name(n) and n not in avoid]
    rng.shuffle(cand)
    while len(out) < k:
        if cand:
            out.append(cand.pop())
        else:
            n = "v%d_%d" % (len(out), rng.randrange(1000))
            if n not in avoid and n not in out:
                out.append(n)
    return out


# =====================================================================================================================
# value recipes (API side)

def build_value(spec):
    import numpy as np
    import sympy as sym
    k = spec["kind"]
    if k == "int":
        return int(spec["v"])
    if k == "float":
        return float(spec["repr"])
    if k == "complex":
        return complex(float(spec["re"]), float(spec["im"]))
    if k == "bool":
        return bool(spec["v"])
    if k == "str":
        return str(spec["v"])
    if k == "npint64":
        return np.int64(int(spec["v"]))
    if k == "npfloat64":
        return np.float64(float(spec["repr"]))
    if k == "npcomplex128":
        return np.complex128(complex(float(spec["re"]), float(spec["im"])))
    if k == "list":
        return [build_value(s) for s in spec["items"]]
    if k == "array":
        dt = spec["dtype"]
        if dt == "int":
            return np.array([[int(e) for e in row] for row in spec["rows"]], dtype=np.int64)
        if dt == "float":
            return np.array([[float(e) for e in row] for row in spec["rows"]], dtype=np.float64)
        if dt == "complex":
            return np.array([[complex(float(e[0]), float(e[1])) for e in row] for row in spec["rows"]], dtype=np.complex128)
        raise ValueError(dt)
    if k == "sym":
        loc = {n: sym.Symbol(n) for n in spec["params"]}
        return sym.sympify(spec["expr"], locals=loc)
    raise ValueError("unknown value kind %r" % k)


def build_program(recipe):
    """assemble a BlackbirdProgram through the Python API the way tests/test_program.py does"""
    import blackbird
    import sympy as sym
    bb = blackbird.BlackbirdProgram(name=recipe["name"], version=recipe["version"])
    for attr, key in (("_target", "target"), ("_type", "type")):
        d = recipe.get(key)
        if d is not None:
            getattr(bb, attr)["name"] = d["name"]
            getattr(bb, attr)["options"] = {k: build_value(v) for k, v in d.get("options", [])}
    for op in recipe["ops"]:
        o = {"op": op["op"], "modes": [build_value(m) if isinstance(m, dict) else int(m) for m in op["modes"]]}
        if op.get("args") is not None:
            o["args"] = [build_value(v) for v in op["args"]]
            o["kwargs"] = {k: build_value(v) for k, v in (op.get("kwargs") or [])}
        bb._operations.append(o)
        bb._modes |= set(int(m) for m in o["modes"])
    bb._var = {k: build_value(v) for k, v in recipe.get("vars", [])}
    bb._parameters = [sym.Symbol(n) for n in recipe.get("params", [])]
    return bb


# --- API value generators ---------------------------------------------------------------------------------------------
F_ORD = ["0.5", "1.0", "-2.5", "0.1", "3.141592653589793", "100.0", "-0.001", "12.75", "0.30000000000000004", "2.0"]
F_EXT = ["-0.0", "0.0", "5e-324", "-5e-324", "1e300", "-1e300", "1e-300", "-1e-300", "1e+22", "-1e+22", "1e-07", "1e16", "1e15",
         "1.7976931348623157e+308", "2.2250738585072014e-308", "9007199254740993.0", "0.0001", "1e-05", "123456789012345680.0"]
I_ORD = [0, 1, 2, 3, -1, -7, 10, 42, 255, 1000]
I_EXT = [2 ** 62, -2 ** 62, 2 ** 63 - 1, -2 ** 63, 10 ** 18, -10 ** 18, 2 ** 31, -2 ** 31 - 1, 2 ** 53 + 1]


def g_float_repr(rng, ext=0.3):
    return pick(rng, F_EXT) if rng.random() < ext else pick(rng, F_ORD)


def g_int(rng, ext=0.2):
    return pick(rng, I_EXT) if rng.random() < ext else pick(rng, I_ORD)


def g_scalar(rng, kinds=("int", "float", "complex", "npint64", "npfloat64", "npcomplex128"), ext=0.3):
    k = pick(rng, kinds)
    if k in ("int", "npint64"):
        v = g_int(rng, ext)
        if k == "int" and rng.random() < 0.03:
            v = pick(rng, [2 ** 70, -2 ** 70, 10 ** 30])                       # Python ints are unbounded
        return {"kind": k, "v": v}
    if k in ("float", "npfloat64"):
        return {"kind": k, "repr": g_float_repr(rng, ext)}
    return {"kind": k, "re": g_float_repr(rng, ext), "im": g_float_repr(rng, ext)}


def g_str(rng):
    return {"kind": "str", "v": pick(rng, STRINGS)}


def g_bool(rng):
    return {"kind": "bool", "v": rng.random() < 0.5}


def g_list(rng, kinds=None, ext=0.3, maxlen=4):
    n = rng.randrange(1, maxlen + 1)
    items = []
    for _ in range(n):
        r = rng.random()
        if r < 0.15:
            items.append(g_str(rng))
        elif r < 0.25:
            items.append(g_bool(rng))
        else:
            items.append(g_scalar(rng, kinds or ("int", "float", "complex", "npint64", "npfloat64", "npcomplex128"), ext))
    return {"kind": "list", "items": items}


SHAPES = [(1, 1), (1, 2), (2, 1), (2, 2), (1, 5), (5, 1), (3, 4), (2, 3), (4, 2), (1, 3), (3, 3), (6, 1), (1, 7)]


def g_array(rng, dtype=None, ext=0.3, shape=None):
    dtype = dtype or pick(rng, ["int", "float", "complex"])
    r, c = shape or pick(rng, SHAPES)
    rows = []
    for _ in range(r):
        row = []
        for _ in range(c):
            if dtype == "int":
                row.append(g_int(rng, ext))
            elif dtype == "float":
                row.append(g_float_repr(rng, ext))
            else:
                row.append([g_float_repr(rng, ext), g_float_repr(rng, ext)])
        rows.append(row)
    return {"kind": "array", "dtype": dtype, "rows": rows}


SYM_FORMS = ["P0", "2*P0", "P0+P1", "P0*P1+P2", "-P0/3", "0.5-P0", "P0**2", "P1*P0 - P2/7", "1/P0", "2.5e-07*P0", "1e22*P0",
             "(P0+P1)*(P0-P1)", "P0/P1", "3*P1+2", "-P0", "P0*P1*P2", "P0 - 1.5", "0.1*P0 + 0.2*P1", "P0**3 - 2*P0", "P0/(P1+2)",
             "2*P0+1", "P0*1.0", "123456789*P0", "P0 + 1e-300"]
SYM_FUNC_FORMS = ["sin(P0)", "exp(P0)+1", "sqrt(P0)", "cos(2*P0)", "log(P0)", "tanh(P0)*P1"]
SYM_PI_FORMS = ["pi*P0", "P0 + pi", "P0*pi/2"]


def g_sym(rng, params, forms=SYM_FORMS):
    """params: names available; returns a spec using up to three *distinct* ones (forms needing more placeholders than there
    are names are not chosen, so nothing cancels to a constant)"""
    ps = list(params)
    rng.shuffle(ps)
    ok = [f for f in forms if sum(t in f for t in ("P0", "P1", "P2")) <= len(ps)]
    form = pick(rng, ok)
    present = [t for t in ("P0", "P1", "P2") if t in form]
    used = ps[:len(present)]
    expr = form
    for i, t in enumerate(present):
        expr = expr.replace(t, "\x00%d\x00" % i)
    for i in range(len(present)):
        expr = expr.replace("\x00%d\x00" % i, used[i])
    return {"kind": "sym", "expr": expr, "params": sorted(set(used))}


def g_modes(rng, np_modes=0.0, pool=12, maxk=4, single=0.5):
    k = 1 if rng.random() < single else rng.randrange(2, maxk + 1)
    ms = rng.sample(range(pool), k)
    return [{"kind": "npint64", "v": m} if rng.random() < np_modes else m for m in ms]


API_FOCI = ["scalars-py", "scalars-np", "extremes", "neg-zero", "strings-bools", "lists-kw", "lists-np", "arrays-int", "arrays-float",
            "arrays-complex", "arrays-multi", "sym-positional", "sym-keyword", "sym-list", "sym-options", "options-kinds", "modes-np",
            "many-ops", "no-arg-ops", "sym-pi", "sym-function", "mixed"]
API_WEIGHTS = {"sym-function": 0.25, "sym-pi": 0.4, "mixed": 3.0, "neg-zero": 1.5, "arrays-multi": 1.5}


def weighted_choice(rng, items, weights):
    tot = sum(weights.get(i, 1.0) for i in items)
    x = rng.random() * tot
    for i in items:
        x -= weights.get(i, 1.0)
        if x <= 0:
            return i
    return items[-1]


def gen_api_recipe(rng, focus=None, allow_nonparsing=True):
    """-> (class, recipe). Programs assembled through the API from the supported values of C09."""
    foci = API_FOCI if allow_nonparsing else [f for f in API_FOCI if f != "sym-function"]
    focus = focus or weighted_choice(rng, foci, API_WEIGHTS)
    rec = {"name": pick(rng, PROG_NAMES), "version": pick(rng, ["1.0", "0.0", "0.3", "12.5"]), "target": None, "type": None,
           "ops": [], "params": []}
    params = names(rng, PARAM_NAMES, rng.randrange(1, 4)) if focus.startswith("sym") or (focus == "mixed" and rng.random() < 0.5) else []
    if params and rng.random() < 0.5:                                          # force a prefix family
        params = rng.sample(["a", "ab", "a1", "abc", "aa", "a_b"], min(len(params) + 1, 3))
    used_params = set()
    py = ("int", "float", "complex")
    npk = ("npint64", "npfloat64", "npcomplex128")
    allk = py + npk

    def scalar():
        if focus == "scalars-py":
            return g_scalar(rng, py, 0.1)
        if focus in ("scalars-np", "lists-np", "modes-np"):
            return g_scalar(rng, npk, 0.2)
        if focus == "extremes":
            return g_scalar(rng, allk, 0.9)
        if focus == "neg-zero":
            k = pick(rng, ["float", "npfloat64", "complex", "npcomplex128"])
            z = lambda: pick(rng, ["-0.0", "-0.0", "0.0", "1.5", "-2.0"])
            return {"kind": k, "repr": "-0.0"} if "float" in k else {"kind": k, "re": z(), "im": z()}
        return g_scalar(rng, allk, 0.3)

    def symv(forms=SYM_FORMS):
        s = g_sym(rng, params, forms)
        used_params.update(s["params"])
        return s

    def value(pos):
        """pos: 'arg' | 'kw' | 'opt'"""
        r = rng.random()
        if focus == "strings-bools":
            return g_str(rng) if r < 0.6 else g_bool(rng)
        if focus in ("lists-kw", "lists-np") and pos != "arg":
            return g_list(rng, npk if focus == "lists-np" else None) if r < 0.8 else scalar()
        if focus.startswith("arrays") and pos != "opt":
            dt = {"arrays-int": "int", "arrays-float": "float", "arrays-complex": "complex"}.get(focus)
            return g_array(rng, dt, 0.4) if r < 0.7 else scalar()
        if focus == "neg-zero" and pos != "opt" and r < 0.4:
            dt = pick(rng, ["float", "complex"])
            a = g_array(rng, dt, 0.2, pick(rng, [(1, 1), (1, 2), (2, 2)]))
            i, j = rng.randrange(len(a["rows"])), rng.randrange(len(a["rows"][0]))
            a["rows"][i][j] = "-0.0" if dt == "float" else [pick(rng, ["-0.0", "1.0", "0.0"]), pick(rng, ["-0.0", "2.0"])]
            return a
        if focus == "sym-positional" and pos == "arg" and r < 0.8:
            return symv()
        if focus == "sym-keyword" and pos == "kw" and r < 0.8:
            return symv()
        if focus == "sym-list" and pos == "kw" and r < 0.8:
            l = g_list(rng, None, 0.1)
            l["items"][rng.randrange(len(l["items"]))] = symv()
            if rng.random() < 0.5:
                l["items"].append(symv())
            return l
        if focus == "sym-options" and pos == "opt" and r < 0.8:
            return symv()
        if focus == "sym-pi" and pos in ("arg", "kw") and r < 0.8:
            return symv(SYM_PI_FORMS)
        if focus == "sym-function" and pos in ("arg", "kw") and r < 0.8:
            return symv(SYM_FUNC_FORMS)
        if focus in ("mixed", "options-kinds", "many-ops"):
            if r < 0.12:
                return g_str(rng)
            if r < 0.2:
                return g_bool(rng)
            if r < 0.35 and pos != "arg":
                return g_list(rng)
            if r < 0.5 and pos != "opt":
                return g_array(rng)
            if r < 0.65 and params and pos != "opt":
                return symv()
        return scalar()

    # metadata
    want_opt = focus in ("options-kinds", "sym-options") or rng.random() < 0.3
    if want_opt or rng.random() < 0.4:
        rec["target"] = {"name": pick(rng, DEVICES), "options": []}
        if want_opt:
            for k in rng.sample(OPTION_KEYS, rng.randrange(1, 5)):
                rec["target"]["options"].append([k, value("opt")])
    if (want_opt and rng.random() < 0.6) or rng.random() < 0.2:
        rec["type"] = {"name": pick(rng, TYPE_NAMES), "options": []}
        if want_opt:
            for k in rng.sample(OPTION_KEYS, rng.randrange(0, 4)):
                rec["type"]["options"].append([k, value("opt")])
    # operations
    nops = rng.randrange(6, 15) if focus == "many-ops" else rng.randrange(1, 5)
    if focus == "mixed" and rng.random() < 0.05:
        nops = 0
    for _ in range(nops):
        op = {"op": pick(rng, GATES + MEASURES[:3]), "modes": g_modes(rng, 0.6 if focus == "modes-np" else 0.1)}
        r = rng.random()
        if focus == "no-arg-ops":
            r = r * 0.5
        if r < 0.12:
            op["args"] = None                                                   # operation without arguments: no keys at all
        elif r < 0.2:
            op["args"], op["kwargs"] = [], []                                   # `Op() | m`
        else:
            na = rng.randrange(0, 4)
            nk = rng.randrange(0, 3)
            if focus in ("lists-kw", "lists-np", "sym-keyword", "sym-list"):
                nk = max(nk, 1)
            if focus in ("sym-positional",) or focus.startswith("arrays"):
                na = max(na, 1)
            op["args"] = [value("arg") for _ in range(na)]
            op["kwargs"] = [[k, value("kw")] for k in rng.sample(KW_KEYS, nk)]
        rec["ops"].append(op)
    rec["params"] = sorted(used_params)
    return focus, rec


# =====================================================================================================================
# script generator (C01 round trip; also reused by readonly_ops / hashseed)

class Script:
    """accumulates a valid Blackbird script; keeps just enough typing information to stay inside the valid language"""

    def __init__(self, rng):
        self.rng = rng
        self.head = []
        self.body = []
        self.vars = {}          # name -> dict(kind=int|float|complex|str|bool|array, pos=bool, nz=bool, n=size)
        self.params = []
        self.tdm = False
        self.p_arrays = []
        self.used = set()

    # ---- literals -------------------------------------------------------------------------------------------------
    def int_lit(self, big=0.0):
        return pick(self.rng, INT_BIG[:3]) if self.rng.random() < big else pick(self.rng, INT_TAME)

    def float_lit(self, extreme=0.0):
        return pick(self.rng, FLOAT_EXTREME) if self.rng.random() < extreme else pick(self.rng, FLOAT_TAME)

    def num_vars(self, kinds=("int", "float", "complex"), **req):
        out = []
        for n, d in self.vars.items():
            if d["kind"] in kinds and d.get("tame") and all(d.get(k) == v for k, v in req.items()):
                out.append(n)
        return out

    # ---- tame numeric expressions: finite by construction ---------------------------------------------------------
    def atom(self, real=False, intonly=False, extra=()):
        rng = self.rng
        r = rng.random()
        extra = list(extra)
        if extra and r < 0.35:
            return pick(rng, extra)
        if intonly:
            vs = self.num_vars(("int",))
            return pick(rng, vs) if vs and r < 0.6 else pick(rng, INT_TAME)
        vs = self.num_vars(("int", "float") if real else ("int", "float", "complex"))
        if vs and r < 0.55:
            return pick(rng, vs)
        arrs = [n for n, d in self.vars.items() if d["kind"] == "array" and d.get("tame") and (not real or d["dtype"] != "complex")]
        if arrs and r < 0.65:
            a = pick(rng, arrs)
            return "%s[%d]" % (a, rng.randrange(self.vars[a]["n"]))
        r = rng.random()
        if r < 0.35:
            return pick(rng, INT_TAME)
        if r < 0.75:
            return pick(rng, FLOAT_TAME)
        if r < 0.85:
            return "pi"
        if real:
            return pick(rng, FLOAT_TAME)
        return "(" + pick(rng, COMPLEX_TAME) + ")"

    def defining_expr(self, kind):
        """right-hand side of a computed variable: either literal-only (any shape) or `<variable> <op> <literal>`, so that
        magnitudes cannot snowball through chains of declarations"""
        rng = self.rng
        real, intonly = kind != "complex", kind == "int"
        vs = self.num_vars(("int",) if intonly else ("int", "float") if real else ("int", "float", "complex"))
        if vs and rng.random() < 0.5:
            v = pick(rng, vs)
            lit = pick(rng, INT_TAME[1:6]) if intonly else pick(rng, FLOAT_TAME[:6] + INT_TAME[1:6]) if real or rng.random() < 0.5 else "(" + pick(rng, COMPLEX_TAME) + ")"
            op = pick(rng, ["+", "-", "*"] if intonly else ["+", "-", "*", "/"])
            if op == "/" or rng.random() < 0.5:
                return "%s %s %s" % (v, op, lit if op != "/" else self.pos_lit())
            return "%s %s %s" % (lit, op, v)
        saved, self.vars = self.vars, {}
        try:
            return self.expr(1 if intonly else 2, real, intonly)
        finally:
            self.vars = saved

    def pos_lit(self):
        return pick(self.rng, ["0.5", "1.5", "2", "3", "0.25", "1e-3", "2.5", "10", "pi", "7.0"])

    def expr(self, depth=2, real=False, intonly=False, extra=()):
        rng = self.rng
        if depth <= 0 or rng.random() < 0.25:
            return self.atom(real, intonly, extra)
        r = rng.random()
        a = self.expr(depth - 1, real, intonly, extra)
        if intonly:
            op = pick(rng, ["+", "-", "*", "+"])
            b = self.expr(depth - 1, real, True, extra)
            if r < 0.15:
                return "(%s %s %s)" % (a, op, b)
            return "%s %s %s" % (a, op, b)
        if r < 0.45:
            b = self.expr(depth - 1, real, False, extra)
            op = pick(rng, ["+", "-", "*"])
            if op == "*":
                return "(%s) * (%s)" % (a, b) if rng.random() < 0.5 else "%s * %s" % (self._par(a), self._par(b))
            return "%s %s %s" % (a, op, self._par(b) if op == "-" else b)
        if r < 0.6:
            return "%s / %s" % (self._par(a), self.pos_lit())
        if r < 0.7:
            return "%s ** %s" % (self.pos_lit(), pick(rng, ["2", "3", "-1", "-2", "0.5", "(1 / 2)", "0", "1"]))
        if r < 0.78:
            return "-%s" % self._par(a)
        if r < 0.84:
            return "(%s)" % a
        fn, arg = pick(rng, [("sin", None), ("cos", None), ("tanh", None), ("arctan", None), ("sinh", "0.5"), ("cosh", "1.5"), ("exp", "0.5"),
                             ("exp", "-2"), ("sqrt", "2"), ("sqrt", "pi"), ("log", "2.5"), ("log", "10"), ("arcsin", "0.5"), ("arccos", "0.25"),
                             ("tan", "0.5"), ("arcsinh", "1.5"), ("arccosh", "2.5"), ("arctanh", "0.5"), ("sqrt", "2 + 2"), ("exp", "pi / 4")])
        if arg is None:                                            # real atom of any size, or a complex *literal* (sin/cos overflow on large imaginary parts)
            arg = self.atom(True, False, extra) if real or rng.random() < 0.7 else "(" + pick(rng, COMPLEX_TAME) + ")"
        return "%s(%s)" % (fn, arg)

    @staticmethod
    def _par(t):
        return t if all(c.isalnum() or c in "._" for c in t) or (t.startswith("(") and t.endswith(")") and t.count("(") == 1) else "(%s)" % t

    # ---- declarations ------------------------------------------------------------------------------------------------
    def fresh(self, pool=VAR_NAMES):
        n = names(self.rng, pool, 1, avoid=self.used)[0]
        self.used.add(n)
        return n

    def declare_scalar(self, kind=None, computed=0.3):
        rng = self.rng
        kind = kind or pick(rng, ["int", "float", "complex", "str", "bool", "float", "int"])
        n = self.fresh()
        tame = True
        if kind == "int":
            t = self.defining_expr("int") if rng.random() < computed else pick(rng, INT_TAME + INT_BIG[:2])
            tame = t not in INT_BIG
        elif kind == "float":
            t = self.defining_expr("float") if rng.random() < computed else pick(rng, FLOAT_TAME + FLOAT_EXTREME + ["3", "-0.5", "-1e300"])
            tame = t not in FLOAT_EXTREME and t != "-1e300"
        elif kind == "complex":
            t = self.defining_expr("complex") if rng.random() < computed else pick(rng, COMPLEX_LITS + COMPLEX_SIGNED + ["2", "0.5"])
            tame = "e" not in t or t not in COMPLEX_LITS + COMPLEX_SIGNED
        elif kind == "str":
            t = '"%s"' % pick(rng, STRINGS)
        else:
            t = pick(rng, ["True", "False"])
        self.body.append("%s %s = %s" % (kind, n, t))
        self.vars[n] = {"kind": kind, "tame": tame}
        return n

    def declare_array(self, dtype=None, shape=None, with_shape=None, name=None, computed=0.2, extreme=0.2):
        rng = self.rng
        dtype = dtype or pick(rng, ["int", "float", "complex"])
        r, c = shape or pick(rng, SHAPES)
        n = name or self.fresh()
        with_shape = rng.random() < 0.5 if with_shape is None else with_shape
        self.body.append("%s array %s%s =" % (dtype, n, "[%d, %d]" % (r, c) if with_shape else ""))
        tame = rng.random() < 0.5
        if tame:
            extreme = 0.0
        for _ in range(r):
            row = []
            for _ in range(c):
                if dtype == "int":
                    e = self.expr(1, True, True) if rng.random() < computed else pick(rng, INT_TAME + ["-1", "-42"] + ([] if tame else INT_BIG[:2]))
                elif dtype == "float":
                    e = self.expr(1, True) if rng.random() < computed else (("-" if rng.random() < 0.3 else "") + self.float_lit(extreme))
                else:
                    e = self.expr(1) if rng.random() < computed else pick(rng, COMPLEX_TAME + ["-1+2j", "-3j", "-0.5-1.5j"] + FLOAT_TAME[:4] if tame else COMPLEX_LITS + COMPLEX_SIGNED)
                row.append(e)
            self.body.append("    " + ", ".join(row))
        if rng.random() < 0.5:
            self.body.append("")
        self.vars[n] = {"kind": "array", "dtype": dtype, "n": r * c, "tame": tame}
        return n

    # ---- argument values -------------------------------------------------------------------------------------------
    def param_expr(self):
        """expressions over template parameters that never cancel to a constant (`{a}/{a}`, `0*{a}` are kept out: their
        parameter disappears from the value, which makes "same free parameters" ill-defined)"""
        rng = self.rng
        ps = ["{%s}" % p for p in self.params]
        p = lambda: pick(rng, ps)

        def two():
            if len(ps) >= 2:
                return rng.sample(ps, 2)
            return None
        forms = [lambda: p(), lambda: "2 * %s" % p(), lambda: "%s + %s" % (p(), p()), lambda: "%s * %s + %s" % (p(), p(), p()),
                 lambda: "-%s / 3" % p(), lambda: "0.5 - %s" % p(), lambda: "%s ** 2" % p(), lambda: "%s * %s + %s / 7" % (p(), p(), p()),
                 lambda: "1 / %s" % p(), lambda: "%s * %s" % (self.float_lit(), p()), lambda: "(%s + 1) * (%s - %s)" % (p(), p(), self.int_lit()),
                 lambda: "-%s" % p(), lambda: "%s - %s" % (self.expr(1, True), p()), lambda: "pi * %s" % p(),
                 lambda: "%s * 1e-07 + %s * 1e22" % (p(), p())]
        if two():
            forms += [lambda: "%s / %s" % tuple(two()), lambda: "%s - %s" % tuple(two()), lambda: "%s * %s - %s" % ((p(),) + tuple(two()))]
        rv = self.num_vars(("int", "float"))
        if rv:
            forms.append(lambda: "%s + %s" % (pick(rng, rv), p()))
        return pick(rng, forms)()

    def regref_expr(self, regs):
        rng = self.rng
        q = lambda: "q%d" % pick(rng, regs)
        forms = [lambda: q(), lambda: "2 * %s + %s" % (q(), q()), lambda: "%s * %s - %s" % (q(), q(), q()), lambda: "%s / 2" % q(),
                 lambda: "-%s" % q(), lambda: "%s ** 2" % q(), lambda: "0.5 - %s" % q(), lambda: "%s * %s" % (self.float_lit(), q()),
                 lambda: "%s + %s + %s" % (q(), q(), q()), lambda: "pi * %s / 4" % q()]
        return pick(rng, forms)()

    ARG_KINDS = ("lit", "signed", "extreme", "var", "array", "parray", "expr", "str", "bool", "param", "regref", "loopvar")

    def arg(self, mix, extra=(), in_list=False, regs=None):
        """mix: dict kind->weight among ARG_KINDS (other keys ignored)"""
        rng = self.rng
        kinds = [k for k in self.ARG_KINDS if mix.get(k, 0) > 0]
        for _ in range(20):
            k = weighted_choice(rng, kinds, mix)
            if k == "lit":
                return pick(rng, [self.int_lit(0.1), self.float_lit(0.0), pick(rng, COMPLEX_LITS), "pi"])
            if k == "signed":
                return pick(rng, ["-" + self.int_lit(0.1), "-" + self.float_lit(0.2), pick(rng, COMPLEX_SIGNED), "+" + self.float_lit(), "-pi"])
            if k == "extreme":
                return ("-" if rng.random() < 0.3 else "") + pick(rng, FLOAT_EXTREME + INT_BIG)
            if k == "var":
                vs = [n for n, d in self.vars.items() if d["kind"] != "array"]
                if vs:
                    return pick(rng, vs)
            if k == "array" and not in_list:
                vs = [n for n, d in self.vars.items() if d["kind"] == "array" and not d.get("ptype")]
                if vs:
                    return pick(rng, vs)
            if k == "parray" and not in_list and self.p_arrays:
                return pick(rng, self.p_arrays)
            if k == "expr":
                return self.expr(2, extra=extra)
            if k == "str":
                return '"%s"' % pick(rng, STRINGS)
            if k == "bool":
                return pick(rng, ["True", "False"])
            if k == "param" and self.params:
                return self.param_expr()
            if k == "regref" and regs:
                return self.regref_expr(regs)
            if k == "loopvar" and extra:
                lv = pick(rng, list(extra))
                return pick(rng, [lv, lv, self.expr(1, True, True, extra), "%s * %s" % (self.float_lit(), lv), "%s + 1" % lv])
        return self.int_lit()

    def statement(self, mix, modes, extra=(), nargs=None, nkw=None, listp=0.35, indent="", regs=None):
        rng = self.rng
        op = pick(rng, GATES)
        shape = rng.random()
        if shape < 0.08:
            call = ""
        elif shape < 0.14:
            call = "()"
        else:
            na = rng.randrange(0, 4) if nargs is None else nargs
            nk = rng.randrange(0, 3) if nkw is None else nkw
            parts = [self.arg(mix, extra, regs=regs) for _ in range(na)]
            for k in rng.sample(KW_KEYS, nk):
                if rng.random() < listp:
                    lm = {k2: w for k2, w in mix.items() if k2 not in ("array", "parray", "regref")}
                    if mix.get("regref_in_list"):
                        lm["regref"] = 3.0
                    items = [self.arg(lm, extra, in_list=True, regs=regs) for _ in range(rng.randrange(1, 5))]
                    parts.append("%s=[%s]" % (k, ", ".join(items)))
                else:
                    parts.append("%s=%s" % (k, self.arg(mix, extra, regs=regs)))
            call = "(%s)" % ", ".join(parts)
        self.body.append("%s%s%s | %s" % (indent, op, call, modes))

    def mode_text(self, pool=8, extra=(), maxk=3):
        """distinct modes; int expressions / int variables allowed"""
        rng = self.rng
        k = 1 if rng.random() < 0.5 else rng.randrange(2, maxk + 1)
        ms = [str(m) for m in rng.sample(range(pool), k)]
        ivars = self.num_vars(("int",), small=True)
        if ivars and rng.random() < 0.3:
            ms[0] = pick(rng, ivars) + " + %d" % (pool + 1)                      # distinct from the literals
        if k == 1 and rng.random() < 0.8:
            return ms[0]
        br = pick(rng, ["[%s]", "[%s]", "(%s)", "%s"])
        return br % ", ".join(ms)

    def text(self):
        return "\n".join(self.head + [""] + self.body) + "\n"


RT_FOCI = ["literals", "typed-vars", "arrays-as-args", "expressions", "kwargs-lists", "strings-bools", "for-loop-modes", "for-loop-list",
           "params-prefix-names", "params-kw-list", "params-mixed", "regrefs", "regrefs-kw", "options", "tdm", "mixed", "extremes",
           "param-array-arg", "regref-in-list", "sym-in-options"]
RT_WEIGHTS = {"mixed": 3.0, "param-array-arg": 0.15, "regref-in-list": 0.15, "params-prefix-names": 2.0, "for-loop-modes": 2.0, "sym-in-options": 0.5}


def option_text(s, rng, sym=False):
    parts = []
    for k in rng.sample(OPTION_KEYS, rng.randrange(1, 5)):
        r = rng.random()
        if sym and r < 0.5 and s.params:
            v = s.param_expr()
        elif r < 0.2:
            v = '"%s"' % pick(rng, STRINGS)
        elif r < 0.3:
            v = pick(rng, ["True", "False"])
        elif r < 0.45:
            v = "[%s]" % ", ".join(pick(rng, [s.int_lit(), s.float_lit(0.2), '"%s"' % pick(rng, STRINGS), "True", "-" + s.float_lit(), pick(rng, COMPLEX_LITS),
                                              "2 * 3", "pi / 2"]) for _ in range(rng.randrange(1, 4)))
        elif r < 0.6:
            v = pick(rng, ["10 * 10", "2 ** 3", "pi / 2", "sqrt(2)", "1 / 3", "3 - 1", "-(2 + 1)"])
        else:
            v = pick(rng, [s.int_lit(0.1), s.float_lit(0.3), "-" + s.int_lit(), "-" + s.float_lit(0.3), pick(rng, COMPLEX_LITS), pick(rng, COMPLEX_SIGNED), "pi"])
        parts.append("%s=%s" % (k, v))
    return " (%s)" % ", ".join(parts)


def gen_roundtrip_script(rng, focus=None):
    """-> (class, script text). Valid scripts only (finite values)."""
    focus = focus or weighted_choice(rng, RT_FOCI, RT_WEIGHTS)
    s = Script(rng)
    s.head.append("name %s" % pick(rng, PROG_NAMES))
    s.head.append("version %s" % pick(rng, VERSIONS))
    if focus in ("params-prefix-names",):
        s.params = rng.sample(["a", "ab", "a1", "abc", "aa", "a_b", "b", "ba"], rng.randrange(2, 5))
    elif focus.startswith("params") or focus in ("param-array-arg", "sym-in-options") or (focus == "mixed" and rng.random() < 0.4):
        s.params = names(rng, PARAM_NAMES, rng.randrange(1, 4))
    s.used.update(s.params)
    opts = focus in ("options", "sym-in-options") or rng.random() < 0.25
    if opts or rng.random() < 0.4:
        s.head.append("target %s%s" % (pick(rng, DEVICES), option_text(s, rng, focus == "sym-in-options") if opts else ""))
    if focus == "tdm":
        s.tdm = True
        s.head.append("type tdm (temporal_modes=%d%s)" % (rng.randrange(1, 5), ", copies=%d" % rng.randrange(1, 4) if rng.random() < 0.5 else ""))
    elif (opts and rng.random() < 0.5) or rng.random() < 0.15:
        s.head.append("type %s%s" % (pick(rng, TYPE_NAMES), option_text(s, rng) if opts and rng.random() < 0.7 else ""))

    mixes = {
        "literals": {"lit": 5, "signed": 3, "extreme": 1},
        "extremes": {"extreme": 5, "signed": 2, "lit": 1},
        "typed-vars": {"var": 6, "lit": 1, "expr": 1},
        "arrays-as-args": {"array": 6, "idx": 1, "lit": 1, "var": 1},
        "expressions": {"expr": 6, "lit": 1, "var": 1},
        "kwargs-lists": {"lit": 3, "expr": 3, "var": 2, "signed": 1, "str": 1, "bool": 1},
        "strings-bools": {"str": 4, "bool": 3, "var": 2, "lit": 1},
        "for-loop-modes": {"loopvar": 5, "lit": 2, "expr": 1},
        "for-loop-list": {"loopvar": 5, "lit": 2, "var": 1},
        "params-prefix-names": {"param": 7, "lit": 1},
        "params-kw-list": {"param": 6, "lit": 2, "expr": 1},
        "params-mixed": {"param": 4, "lit": 2, "expr": 2, "var": 1, "str": 1},
        "regrefs": {"regref": 6, "lit": 2},
        "regrefs-kw": {"regref": 6, "lit": 2, "expr": 1},
        "regref-in-list": {"regref": 4, "lit": 2, "regref_in_list": 1},
        "options": {"lit": 3, "var": 1, "expr": 1},
        "sym-in-options": {"lit": 3, "param": 3},
        "tdm": {"parray": 5, "lit": 2, "var": 1, "array": 1},
        "param-array-arg": {"array": 3, "param": 2, "lit": 1},
        "mixed": {"lit": 3, "signed": 2, "var": 3, "expr": 3, "str": 1, "bool": 1, "param": 3, "array": 2, "extreme": 1},
    }
    mix = dict(mixes[focus])
    # declarations
    nvars = {"typed-vars": (3, 7), "expressions": (1, 4), "mixed": (1, 5), "kwargs-lists": (1, 3), "strings-bools": (2, 4), "arrays-as-args": (0, 2),
             "tdm": (0, 2), "params-mixed": (0, 3), "options": (0, 2)}.get(focus, (0, 1))
    for _ in range(rng.randrange(nvars[0], nvars[1] + 1)):
        kind = pick(rng, ["str", "bool", "str"]) if focus == "strings-bools" and rng.random() < 0.7 else None
        s.declare_scalar(kind)
    if rng.random() < 0.3 or focus in ("for-loop-modes", "typed-vars"):
        n = s.fresh()
        s.body.append("int %s = %s" % (n, pick(rng, ["0", "1", "2", "3"])))
        s.vars[n] = {"kind": "int", "small": True, "tame": True}
    narr = {"arrays-as-args": (1, 4), "mixed": (0, 2), "tdm": (0, 1), "expressions": (0, 2), "typed-vars": (0, 2)}.get(focus, (0, 0))
    for _ in range(rng.randrange(narr[0], narr[1] + 1)):
        s.declare_array()
    if focus == "param-array-arg":
        n = s.fresh()
        r, c = pick(rng, [(1, 2), (2, 2), (1, 1), (2, 3)])
        if rng.random() < 0.5 or r * c == 1:
            s.body.append("float array %s[%d, %d] =\n    {%s}" % (n, r, c, s.params[0]))
        else:
            rows = [["{%s}" % pick(rng, s.params) if rng.random() < 0.5 else s.float_lit() for _ in range(c)] for _ in range(r)]
            rows[0][0] = "{%s}" % s.params[0]
            s.body.append("float array %s =\n" % n + "\n".join("    " + ", ".join(row) for row in rows))
        s.vars[n] = {"kind": "array", "dtype": "float", "n": r * c, "tame": False}
    if s.tdm:
        for i in range(rng.randrange(1, 4)):
            dt = pick(rng, ["float", "float", "int", "complex"])
            n = "p%d" % (i if rng.random() < 0.8 else i + 10)
            s.used.add(n)
            s.declare_array(dt, (1 if rng.random() < 0.85 else 2, rng.randrange(1, 5)), with_shape=rng.random() < 0.2, name=n, computed=0.1)
            s.vars[n]["ptype"] = True
            s.p_arrays.append(n)
    # statements
    regs = None
    nst = rng.randrange(1, 7)
    if focus in ("regrefs", "regrefs-kw", "regref-in-list") or (focus == "mixed" and rng.random() < 0.3):
        regs = rng.sample([0, 1, 2, 3, 12], rng.randrange(1, 4))
        for r_ in regs:
            s.body.append("%s | %d" % (pick(rng, MEASURES), r_))
        if focus == "mixed":
            mix["regref"] = 2
    for _ in range(nst):
        is_loop = focus.startswith("for-loop") or (focus == "mixed" and rng.random() < 0.25)
        if is_loop:
            lv = s.fresh(LOOP_NAMES)
            as_list = focus == "for-loop-list" or rng.random() < 0.25
            ltype = "int"
            if as_list:
                ltype = pick(rng, ["int", "int", "float", "complex"])
                if ltype == "int":
                    vals = [str(v) for v in rng.sample(range(0, 9), rng.randrange(1, 4))]
                elif ltype == "float":
                    vals = [s.float_lit(0.0) for _ in range(rng.randrange(1, 4))]
                else:
                    vals = [pick(rng, COMPLEX_TAME) for _ in range(rng.randrange(1, 4))]
                br = pick(rng, ["[%s]", "(%s)", "%s"])
                s.body.append("for %s %s in %s" % (ltype, lv, br % ", ".join(vals)))
            else:
                a = rng.randrange(0, 4)
                b = a + rng.randrange(0 if rng.random() < 0.05 else 1, 4)
                step = rng.random() < 0.3
                s.body.append("for int %s in %d:%d%s" % (lv, a, b + (2 if step else 0), ":2" if step else ""))
            lmix = dict(mix)
            lmix["loopvar"] = lmix.get("loopvar", 0) + 4
            for _ in range(rng.randrange(1, 4)):
                if ltype == "int":
                    forms = ["%s" % lv, "[%s, %s + 1]" % (lv, lv), "[%s, %s + 1, %s + 2]" % (lv, lv, lv), "[%s + 1, %s]" % (lv, lv), "2 * %s" % lv,
                             "(%s, %s + 3)" % (lv, lv), "[0, %s + 1]" % lv, "%d" % rng.randrange(5)]
                    ivars = s.num_vars(("int",), small=True)
                    if ivars:
                        forms.append("[%s, %s + %s + 1]" % (lv, lv, pick(rng, ivars)))
                    modes = pick(rng, forms)
                else:
                    modes = s.mode_text()
                s.statement(lmix, modes, extra=(lv,), indent="    ", regs=regs)
            s.used.discard(lv)
        else:
            nk = None
            listp = 0.35
            if focus in ("kwargs-lists", "params-kw-list", "regrefs-kw", "regref-in-list"):
                nk = rng.randrange(1, 3)
                listp = {"kwargs-lists": 0.7, "params-kw-list": 0.6, "regrefs-kw": 0.0, "regref-in-list": 1.0}[focus]
            elif regs and "regref" in mix:
                listp = 0.0 if rng.random() < 0.5 else 0.35
            s.statement(mix, s.mode_text(), nkw=nk, listp=listp, regs=regs)
    return focus, s.text()


# =====================================================================================================================
# C16: abstract programs for the dependency graph

def gen_digraph_case(rng, tier="quick"):
    n = rng.randrange(0, 13)
    pool = rng.sample(range(0, 9), rng.randrange(1, 5))
    ops, lines = [], ["name dag", "version 1.0", ""]
    feats = set()
    for i in range(n):
        k = 1 if rng.random() < 0.55 or len(pool) == 1 else rng.randrange(2, min(3, len(pool)) + 1)
        modes = rng.sample(pool, k)
        regs = set()
        r = rng.random()
        mtxt = str(modes[0]) if k == 1 and rng.random() < 0.8 else "[%s]" % ", ".join(map(str, modes))
        if r < 0.2:
            name = pick(rng, MEASURES)
            call = pick(rng, ["", "", "()", "(select=1)", "(0.5)"])
        elif r < 0.4:
            name, call = pick(rng, GATES), ""
            feats.add("noarg")
        elif r < 0.75 or not pool:
            name = pick(rng, GATES)
            call = pick(rng, ["(0.5)", "(1, 2.5)", "(0.1, k=3)", "()", "(k=[1, 2])", '("s")', "(1+2j)"])
        else:
            name = pick(rng, GATES)
            rp = rng.sample(range(0, 9), rng.randrange(1, 4)) if rng.random() < 0.3 else rng.sample(pool, min(len(pool), rng.randrange(1, 3)))
            q = ["q%d" % x for x in rp]
            form = rng.random()
            if form < 0.4:
                e = " * ".join(q) if rng.random() < 0.5 else " + ".join("%d * %s" % (j + 2, t) for j, t in enumerate(q))
                call = "(%s)" % e
                regs |= set(rp)
                feats.add("reg-pos")
            elif form < 0.8:
                call = "(0.5, k=%s)" % (" - ".join(q))
                regs |= set(rp)
                feats.add("reg-kw")
            else:
                call = "(%s, phi=%s / 2)" % (q[0], q[-1])
                regs |= {rp[0], rp[-1]}
                feats.add("reg-pos")
                feats.add("reg-kw")
        if k > 1:
            feats.add("multi")
        ops.append({"op": name, "modes": modes, "regs": sorted(regs)})
        lines.append("%s%s | %s" % (name, call, mtxt))
    cls = "len%s/%s" % ("0" if n == 0 else "1-4" if n <= 4 else "5-12", "+".join(sorted(feats)) or "plain")
    return {"class": cls, "input": {"script": "\n".join(lines) + "\n", "ops": ops}}


# =====================================================================================================================
# C17: templates with affine single-parameter positional arguments

AFFINE_FORMS = [("{%s}", 1.0, 0.0), ("2*{%s}+1", 2.0, 1.0), ("-{%s}/3", -1.0 / 3.0, 0.0), ("0.5-{%s}", -1.0, 0.5), ("-{%s}", -1.0, 0.0),
                ("3*{%s}", 3.0, 0.0), ("{%s}/2", 0.5, 0.0), ("{%s}+0.25", 1.0, 0.25), ("1.5*{%s}-2", 1.5, -2.0), ("{%s}*0.1", 0.1, 0.0)]


def gen_template_case(rng, tier="quick"):
    nops = rng.randrange(1, 7)
    pool = rng.sample(range(0, 8), rng.randrange(1, 5))
    params = names(rng, ["a", "b", "ab", "r", "phi", "theta", "x1", "alpha", "s", "bs", "offset", "t"], rng.randrange(1, 4))
    shape = pick(rng, ["single-use", "repeated-same-form", "repeated-parameter-affine", "repeated-parameter-affine", "mixed"])
    forms_of = {}
    ops = []
    used = []
    for i in range(nops):
        k = 1 if rng.random() < 0.6 or len(pool) == 1 else 2
        modes = rng.sample(pool, k)
        r = rng.random()
        if r < 0.15:
            ops.append({"op": pick(rng, GATES), "modes": modes, "args": None})
            continue
        args = []
        for _ in range(rng.randrange(1, 4)):
            if rng.random() < 0.3:
                args.append({"const": pick(rng, ["0.45", "1", "-2.5", "0.0", "3", "1.5707963267948966", "100"])})
            else:
                if shape == "single-use":
                    cand = [p for p in params if p not in used] or None
                    if cand is None:
                        args.append({"const": "0.75"})
                        continue
                    p = pick(rng, cand)
                else:
                    p = pick(rng, params)
                if shape == "repeated-same-form" and p in forms_of:
                    f = forms_of[p]
                elif shape == "single-use" and rng.random() < 0.5:
                    f = 0
                else:
                    f = rng.randrange(len(AFFINE_FORMS))
                forms_of.setdefault(p, f)
                used.append(p)
                args.append({"param": p, "form": f})
        ops.append({"op": pick(rng, GATES), "modes": modes, "args": args})
    if not used:
        ops.append({"op": "Rgate", "modes": [pool[0]], "args": [{"param": params[0], "form": 1}]})
        used.append(params[0])
    has_offset = {p: any(a.get("param") == p and AFFINE_FORMS[a["form"]][2] != 0.0 for o in ops if o["args"] for a in o["args"]) for p in set(used)}
    values = {}
    for p in sorted(set(used)):
        mag = pick(rng, ["normal", "normal", "tiny", "large", "negative"])
        if mag == "normal":
            v = rng.uniform(0.05, 10.0)
        elif mag == "negative":
            v = -rng.uniform(0.05, 10.0)
        elif mag == "tiny":
            v = rng.uniform(1.0, 9.0) * 10.0 ** (-rng.randrange(2, 4 if has_offset[p] else 9))
        else:
            v = rng.uniform(1.0, 9.0) * 10.0 ** rng.randrange(2, 7)
        if rng.random() < 0.3:
            v = -v
        values[p] = repr(v)
    repeated = any(used.count(p) > 1 for p in set(used))
    multi_form = any(len({a["form"] for o in ops if o["args"] for a in o["args"] if a.get("param") == p}) > 1 for p in set(used))
    target = pick(rng, [None, None, "X8_01", "gaussian"])
    tpl = {"name": "tpl", "version": pick(rng, ["1.0", "0.3"]), "target": target, "ops": ops}
    # reordering that preserves per-mode order: adjacent swaps of operations on disjoint mode sets
    order = list(range(len(ops)))
    reorder = rng.random() < 0.5 and len(ops) > 1
    swapped = False
    if reorder:
        for _ in range(rng.randrange(1, 12)):
            i = rng.randrange(len(order) - 1)
            if not set(ops[order[i]]["modes"]) & set(ops[order[i + 1]]["modes"]):
                order[i], order[i + 1] = order[i + 1], order[i]
                swapped = True
    inp = {"template": tpl, "values": values, "order": order, "via": pick(rng, ["call", "script"]), "edit": None}
    cls = ("repeated-parameter-affine" if multi_form else "repeated-parameter" if repeated else "single-use")
    if swapped and order != list(range(len(ops))):
        cls = "reordered/" + cls
    # negative cases: one structural edit of the instance
    if rng.random() < 0.35:
        kinds = ["gate-name", "mode-list", "mode-list", "version", "target"]
        swap_ix = [i for i in range(len(ops) - 1) if set(ops[i]["modes"]) & set(ops[i + 1]["modes"])
                   and (ops[i]["op"], ops[i]["modes"]) != (ops[i + 1]["op"], ops[i + 1]["modes"])]
        if swap_ix:
            kinds += ["swap-order", "swap-order"]
        kind = pick(rng, kinds)
        inp["order"] = list(range(len(ops)))
        if kind == "gate-name":
            inp["edit"] = {"kind": kind, "index": rng.randrange(len(ops)), "to": "Other_gate"}
        elif kind == "mode-list":
            multi = [j for j, o in enumerate(ops) if len(o["modes"]) > 1]
            i = pick(rng, multi) if multi and rng.random() < 0.7 else rng.randrange(len(ops))
            m = list(ops[i]["modes"])
            how = pick(rng, ["reverse", "reverse", "fresh", "extra"]) if len(m) > 1 else pick(rng, ["fresh", "extra"])
            if how == "reverse":
                m = m[::-1]
            elif how == "fresh":
                m[rng.randrange(len(m))] = 20 + rng.randrange(5)
            else:
                m = m + [30]
            inp["edit"] = {"kind": kind, "index": i, "to": m, "how": how}
        elif kind == "version":
            inp["edit"] = {"kind": kind, "to": "9.9"}
        elif kind == "target":
            inp["edit"] = {"kind": kind, "to": "other_device" if target is None or rng.random() < 0.7 else None}
        else:
            inp["edit"] = {"kind": kind, "index": pick(rng, swap_ix)}
        cls = "negative/" + kind + ("/" + inp["edit"]["how"] if kind == "mode-list" else "")
    return {"class": cls, "input": inp}


def affine_text(a):
    if "const" in a:
        return a["const"]
    return AFFINE_FORMS[a["form"]][0] % a["param"]


def affine_value(a, values):
    if "const" in a:
        c = a["const"]
        return float(c) if any(ch in c for ch in ".e") else int(c)
    _, coef, off = AFFINE_FORMS[a["form"]]
    v = values[a["param"]]
    f = a["form"]
    # evaluate the way the *text* reads (so that the instance is what substituting into the text gives)
    return {0: v, 1: 2 * v + 1, 2: -v / 3, 3: 0.5 - v, 4: -v, 5: 3 * v, 6: v / 2, 7: v + 0.25, 8: 1.5 * v - 2, 9: v * 0.1}[f]


def template_script(tpl, values=None, order=None):
    """script of the template (values None) or of its instantiation printed independently of the code under test"""
    lines = ["name %s" % tpl["name"], "version %s" % tpl["version"]]
    if tpl.get("target"):
        lines.append("target %s" % tpl["target"])
    lines.append("")
    for i in (order if order is not None else range(len(tpl["ops"]))):
        o = tpl["ops"][i]
        m = str(o["modes"][0]) if len(o["modes"]) == 1 else "[%s]" % ", ".join(map(str, o["modes"]))
        if o["args"] is None:
            lines.append("%s | %s" % (o["op"], m))
        else:
            if values is None:
                parts = [affine_text(a) for a in o["args"]]
            else:
                parts = [a["const"] if "const" in a else repr(affine_value(a, values)) for a in o["args"]]
            lines.append("%s(%s) | %s" % (o["op"], ", ".join(parts), m))
    return "\n".join(lines) + "\n"


# =====================================================================================================================
# C07 / C19: include trees

MODE_SETS = [[3, 10], [0, 1, 2], [7], [1, 8, 16], [0], [0, 1], [2, 5], [9, 17, 33], [4, 12, 20, 28], [10, 3], [16, 8, 1], [5, 64]]
LIB_DIRS = ["", "sub", "sub/deeper", "lib_dir", "a/b/c"]
LIB_NAMES = ["CustomOperation", "MachZehnder", "Lib1", "sub_2", "Inner", "BlockA", "prep", "Umix"]


def gen_lib(rng, name, modeset, params, callees, depth):
    """library program description. ops: plain {"op","modes","args","kwargs"} or calls {"call": libname, "modes": [...], "bind": {...}}"""
    ops = []
    ms = list(modeset)
    n = rng.randrange(1, 5)
    pending = list(ms)
    rng.shuffle(pending)
    pused = set()

    def argspec():
        r = rng.random()
        if params and r < 0.6:
            p = pick(rng, params)
            pused.add(p)
            return {"param": p, "form": pick(rng, [0, 0, 1, 3, 5, 6])}
        return {"const": pick(rng, ["0.5", "1", "-2", "0.1", "3.25", "1e-3", "7"])}

    def take(k):
        """k distinct modes of the library, not yet used ones first"""
        k = min(k, len(ms))
        out = []
        while pending and len(out) < k:
            out.append(pending.pop())
        rest = [m for m in ms if m not in out]
        rng.shuffle(rest)
        out += rest[:k - len(out)]
        rng.shuffle(out)
        return out

    while len(ops) < n or pending or set(params) - pused:
        if len(ops) > 14:
            break
        fit = [c for c in callees if len(c["modeset"]) <= len(ms)]
        if fit and (rng.random() < 0.4 or (len(ops) >= 1 and not any("call" in o for o in ops))):
            c = pick(rng, fit)
            cm = take(len(c["modeset"]))
            bind = {}
            for p in c["params"]:
                if params and rng.random() < 0.4:
                    q = pick(rng, params)
                    pused.add(q)
                    bind[p] = {"param": q, "form": pick(rng, [0, 0, 1, 5])}
                else:
                    bind[p] = {"const": pick(rng, ["0.5", "2", "-1.5", "0.125", "3"])}
            ops.append({"call": c["name"], "modes": cm, "bind": bind})
            continue
        modes = take(1 if rng.random() < 0.5 else rng.randrange(2, 4))
        r = rng.random()
        miss = sorted(set(params) - pused)
        if r < 0.2 and not miss:
            ops.append({"op": pick(rng, GATES + MEASURES[:3]), "modes": modes, "args": None, "kwargs": None})
        else:
            args = [argspec() for _ in range(rng.randrange(0, 3))]
            miss = sorted(set(params) - pused)
            if miss:
                args.append({"param": miss[0], "form": pick(rng, [0, 1])})
                pused.add(miss[0])
            kw = {}
            if rng.random() < 0.3:
                kw[pick(rng, ["k", "phi", "select"])] = argspec()
            ops.append({"op": pick(rng, GATES + MEASURES[:3]), "modes": modes, "args": args, "kwargs": kw})
    ms = sorted({m for o in ops for m in o["modes"]})
    params = [p for p in params if p in pused]
    return {"name": name, "modeset": sorted(set(ms)), "params": list(params), "ops": ops}


def gen_include_case(rng, tier="quick", for_hashseed=False):
    depth = rng.randrange(1, 4)
    nlibs = rng.randrange(1, 4) if depth == 1 else rng.randrange(depth, depth + 2)
    lnames = rng.sample(LIB_NAMES, nlibs)
    libs = []
    for i, nm in enumerate(lnames):
        params = names(rng, ["theta", "phi", "a", "ab", "r", "t", "x1"], rng.randrange(1, 3)) if rng.random() < 0.55 else []
        callees = []
        if depth > 1 and i > 0 and (i < depth or rng.random() < 0.5):
            callees = [libs[i - 1]] if i < depth else [pick(rng, libs)]
        need = max([len(c["modeset"]) for c in callees] + [1])
        lib = gen_lib(rng, nm, pick(rng, [m for m in MODE_SETS if len(m) >= need]), params, callees, depth)
        lib["dir"] = pick(rng, LIB_DIRS)
        lib["file"] = "%s_%d.xbb" % (nm.lower(), i)
        lib["includes"] = sorted({o["call"] for o in lib["ops"] if "call" in o})
        libs.append(lib)
    main_dir = pick(rng, ["", "", "proj", "sub", "x/y"])
    # main program
    top = libs[-1]
    ops = []
    feats = set()
    callable_libs = [top] + ([pick(rng, libs)] if rng.random() < 0.5 else [])
    ncalls = rng.randrange(1, 4)
    for c in range(ncalls + rng.randrange(0, 3)):
        if c < ncalls:
            lib = pick(rng, callable_libs) if c else top
            k = len(lib["modeset"])
            cm = rng.sample(range(0, 24), k)
            bind = {p: {"const": pick(rng, ["0.54", "0.1", "2", "-3", "1.25", "1e-2", "100"])} for p in lib["params"]}
            ops.append({"call": lib["name"], "modes": cm, "bind": bind})
        else:
            ops.append({"op": pick(rng, GATES), "modes": rng.sample(range(0, 24), rng.randrange(1, 3)), "args": [{"const": "0.5"}] if rng.random() < 0.6 else None,
                        "kwargs": {} if rng.random() < 0.6 else None})
            if ops[-1]["args"] is None:
                ops[-1]["kwargs"] = None
            elif ops[-1]["kwargs"] is None:
                ops[-1]["kwargs"] = {}
    rng.shuffle(ops)
    called = [o["call"] for o in ops if "call" in o]
    if len(called) != len(set(called)):
        feats.add("same-sub-twice")
    loop_call = None
    if rng.random() < 0.15 and len(top["modeset"]) <= 2:
        loop_call = {"lib": top["name"], "range": [0, rng.randrange(2, 4)],
                     "bind": {p: {"const": "0.25"} for p in top["params"]}, "k": len(top["modeset"])}
        feats.add("call-in-loop")
    inc_names = sorted(set(called) | ({loop_call["lib"]} if loop_call else set()))
    includes = []
    for nm in inc_names:
        style = pick(rng, ["rel", "rel", "abs"])
        includes.append({"lib": nm, "style": style})
        if rng.random() < 0.25:
            includes.append({"lib": nm, "style": style if rng.random() < 0.7 else "abs"})
            feats.add("repeated-include")
    rng.shuffle(includes)
    nest_styles = {l["name"]: {c: pick(rng, ["rel", "rel", "abs"]) for c in l["includes"]} for l in libs}
    cwd = pick(rng, ["unrelated", "unrelated", "root", "main-dir", "slash", "lib-dir"])
    how = "abs" if cwd in ("unrelated", "slash", "lib-dir") or rng.random() < 0.5 else "rel"
    feats.discard("repeated-include")
    if any(l["params"] for l in libs):
        feats.add("template")
    if any(l["modeset"] != list(range(len(l["modeset"]))) for l in libs if l["name"] in called):
        feats.add("modes-not-0..k")
    inp = {"libs": libs, "main": {"dir": main_dir, "file": "main.xbb", "name": "test_include", "version": "0.0", "includes": includes, "ops": ops,
                                  "loop_call": loop_call}, "nest_styles": nest_styles, "cwd": cwd, "load": how, "negative": None}
    by_name = {l["name"]: l for l in libs}

    def nest(nm):
        return 1 + max([nest(o["call"]) for o in by_name[nm]["ops"] if "call" in o] + [0])
    depth = max([nest(o["call"]) for o in ops if "call" in o] + ([nest(loop_call["lib"])] if loop_call else []) + [0])
    at_main = cwd == "main-dir" or (cwd == "root" and main_dir == "")
    cls = "depth%d/%s/%s" % (depth, "+".join(sorted(feats)) or "plain", "cwd-at-main" if at_main else "cwd-elsewhere")
    if not for_hashseed and rng.random() < 0.2:
        # negative: one ill-formed call appended
        kinds = ["wrong-mode-count"]
        kinds += ["unknown-kwarg", "missing-kwarg", "positional-instead-of-keyword"] if top["params"] else ["kwargs-to-non-template"]
        kind = pick(rng, kinds)
        inp["negative"] = {"kind": kind, "lib": top["name"]}
        inp["main"]["loop_call"] = None
        if top["name"] not in [i["lib"] for i in includes]:
            includes.append({"lib": top["name"], "style": "rel"})
        cls = "negative/" + kind
    return {"class": cls, "input": inp}


def _op_line(o, indent=""):
    m = str(o["modes"][0]) if len(o["modes"]) == 1 else "[%s]" % ", ".join(map(str, o["modes"]))
    if "call" in o:
        call = "(%s)" % ", ".join("%s=%s" % (k, affine_text(v)) for k, v in o["bind"].items()) if o["bind"] else ""
        return "%s%s%s | %s" % (indent, o["call"], call, m)
    if o["args"] is None:
        return "%s%s | %s" % (indent, o["op"], m)
    parts = [affine_text(a) for a in o["args"]] + ["%s=%s" % (k, affine_text(v)) for k, v in (o["kwargs"] or {}).items()]
    return "%s%s(%s) | %s" % (indent, o["op"], ", ".join(parts), m)


def include_files(inp, root_token="@ROOT@"):
    """-> {relative path: text}; absolute include paths carry root_token"""
    import posixpath
    libs = {l["name"]: l for l in inp["libs"]}
    files = {}

    def inc_line(from_dir, lib, style):
        if style == "abs":
            return 'include "%s"' % posixpath.join(root_token, lib["dir"], lib["file"])
        return 'include "%s"' % posixpath.normpath(posixpath.join(posixpath.relpath(lib["dir"] or ".", from_dir or "."), lib["file"]))

    for l in inp["libs"]:
        lines = ["name %s" % l["name"], "version 0.0"]
        for c in l["includes"]:
            lines.append(inc_line(l["dir"], libs[c], inp["nest_styles"][l["name"]][c]))
        lines.append("")
        lines += [_op_line(o) for o in l["ops"]]
        files[posixpath.join(l["dir"], l["file"])] = "\n".join(lines) + "\n"
    m = inp["main"]
    lines = ["name %s" % m["name"], "version %s" % m["version"]]
    for i in m["includes"]:
        lines.append(inc_line(m["dir"], libs[i["lib"]], i["style"]))
    lines.append("")
    lines += [_op_line(o) for o in m["ops"]]
    if m.get("loop_call"):
        lc = m["loop_call"]
        lines.append("for int i in %d:%d" % tuple(lc["range"]))
        call = "(%s)" % ", ".join("%s=%s" % (k, affine_text(v)) for k, v in lc["bind"].items()) if lc["bind"] else ""
        lines.append("    %s%s | %s" % (lc["lib"], call, "i" if lc["k"] == 1 else "[i, i + 1]"))
    neg = inp.get("negative")
    if neg:
        lib = libs[neg["lib"]]
        k = len(lib["modeset"])
        good = "(%s)" % ", ".join("%s=0.5" % p for p in lib["params"]) if lib["params"] else ""
        mk = lambda n: "[%s]" % ", ".join(str(40 + j) for j in range(n)) if n != 1 else "40"
        if neg["kind"] == "wrong-mode-count":
            lines.append("%s%s | %s" % (lib["name"], good, mk(k + 1)))
        elif neg["kind"] == "unknown-kwarg":
            lines.append("%s(%s) | %s" % (lib["name"], ", ".join(["%s=0.5" % p for p in lib["params"]] + ["zzz=1"]), mk(k)))
        elif neg["kind"] == "missing-kwarg":
            lines.append("%s%s | %s" % (lib["name"], "(%s)" % ", ".join("%s=0.5" % p for p in lib["params"][1:]) if lib["params"][1:] else "", mk(k)))
        elif neg["kind"] == "positional-instead-of-keyword":
            lines.append("%s(%s) | %s" % (lib["name"], ", ".join("0.5" for _ in lib["params"]), mk(k)))
        elif neg["kind"] == "kwargs-to-non-template":
            lines.append("%s(zzz=0.5) | %s" % (lib["name"], mk(k)))
    files[posixpath.join(m["dir"], m["file"])] = "\n".join(lines) + "\n"
    return files


def inline_expected(inp):
    """the oracle of C07 computed from the abstract description: list of expected operations of the main program"""
    libs = {l["name"]: l for l in inp["libs"]}

    def val(a, env):
        if "const" in a:
            return affine_value(a, {})
        v = env[a["param"]]
        return affine_value(a, {a["param"]: v})

    def expand(ops, env, rename):
        out = []
        for o in ops:
            modes = [rename[m] for m in o["modes"]]
            if "call" in o:
                lib = libs[o["call"]]
                sub_env = {p: val(a, env) for p, a in o["bind"].items()}
                sub_ren = dict(zip(sorted(lib["modeset"]), modes))
                out += expand(lib["ops"], sub_env, sub_ren)
            elif o["args"] is None:
                out.append({"op": o["op"], "modes": modes})
            else:
                out.append({"op": o["op"], "modes": modes, "args": [val(a, env) for a in o["args"]],
                            "kwargs": {k: val(a, env) for k, a in (o["kwargs"] or {}).items()}})
        return out

    class Ident(dict):
        def __missing__(self, k):
            return k
    m = inp["main"]
    out = expand(m["ops"], {}, Ident())
    if m.get("loop_call"):
        lc = m["loop_call"]
        for i in range(*lc["range"]):
            modes = [i] if lc["k"] == 1 else [i, i + 1]
            out += expand([{"call": lc["lib"], "modes": modes, "bind": lc["bind"]}], {}, Ident())
    return out


# =====================================================================================================================
# C19: scripts whose output passes through set iteration

def gen_hashseed_item(rng):
    """-> dict(class, script | include-case)"""
    r = rng.random()
    if r < 0.3:
        case = gen_include_case(rng, for_hashseed=True)
        case["input"]["cwd"] = "unrelated"
        case["input"]["load"] = "abs"
        return {"class": "include/" + case["class"].rsplit("/", 1)[0], "include": case["input"]}
    H = ["name %s" % pick(rng, PROG_NAMES), "version 1.0"]
    body = []
    if r < 0.6:
        ps = rng.sample(["a", "ab", "b", "a1", "abc", "aa", "x", "xy", "r", "phi", "p1", "E"], rng.randrange(2, 6))
        P = lambda: "{%s}" % pick(rng, ps)
        cls = "multi-param-argument"
        if rng.random() < 0.4:
            H.append("target %s (shots=%s, k=%s * %s)" % (pick(rng, DEVICES), P(), P(), P()))
        for _ in range(rng.randrange(1, 5)):
            forms = ["%s * %s + %s" % (P(), P(), P()), "%s + %s - %s * %s" % (P(), P(), P(), P()), "%s / %s" % (P(), P()), "2 * %s" % P(),
                     "%s * %s * %s * %s" % (P(), P(), P(), P()), "%s ** 2 - %s" % (P(), P())]
            args = [pick(rng, forms) for _ in range(rng.randrange(1, 3))]
            if rng.random() < 0.5:
                args.append("k=%s" % pick(rng, forms))
                cls = "multi-param-argument+kwargs"
            if rng.random() < 0.3:
                args.append("l=[%s, %s, 1]" % (pick(rng, forms), P()))
            body.append("%s(%s) | %s" % (pick(rng, GATES), ", ".join(args), pick(rng, ["0", "[0, 1]", "[3, 10]", "[16, 8, 1]"])))
    elif r < 0.85:
        regs = rng.sample([0, 1, 2, 3, 5, 8, 12, 16, 33], rng.randrange(2, 6))
        Q = lambda: "q%d" % pick(rng, regs)
        cls = "multi-register-argument"
        for m in regs:
            body.append("%s | %d" % (pick(rng, MEASURES), m))
        for _ in range(rng.randrange(1, 4)):
            forms = ["%s * %s - %s" % (Q(), Q(), Q()), "%s + 2 * %s + 3 * %s + 4 * %s" % (Q(), Q(), Q(), Q()), "%s / %s" % (Q(), Q()), "%s - %s" % (Q(), Q()),
                     "%s * %s * %s" % (Q(), Q(), Q())]
            args = [pick(rng, forms) for _ in range(rng.randrange(1, 3))]
            if rng.random() < 0.5:
                args.append("phi=%s" % pick(rng, forms))
            body.append("%s(%s) | %s" % (pick(rng, GATES), ", ".join(args), pick(rng, ["20", "[20, 21]"])))
    else:
        cls = "array-valued-parameter"
        ps = rng.sample(["p_one", "ab", "a", "w", "p2"], 3)
        r_, c_ = pick(rng, [(2, 2), (1, 3), (3, 2), (2, 4)])
        body.append("float array A[%d, %d] =\n    {%s}" % (r_, c_, ps[0]))
        body.append("float array B[2, 3] =\n    1, {%s}, 3\n    1, 2, {%s}" % (ps[1], ps[2]))
        body.append("%s(%s) | [3, 10]" % (pick(rng, GATES), pick(rng, ["A", "B", "{%s} * {%s}" % (ps[1], ps[2]), "A, B"])))
        body.append("%s({%s} + {%s}, k={%s}) | 1" % (pick(rng, GATES), ps[1], ps[2], ps[2]))
    return {"class": cls, "script": "\n".join(H + [""] + body) + "\n"}
