"""Small generators shared by the semantic witness families (fam_sem.py).  Independent of gen.py on purpose.

Text is always printed so that its tokenisation is known (blackbird.g4):
  * ", " after every comma (`1,2` is one SEQUENCE token), single spaces inside a line, exactly four spaces as indentation
    (five or more blanks lex as skipped SPACE, four blanks in the middle of a line lex as TAB);
  * a sign in front of a two-part complex literal belongs to the COMPLEX token, so complex literals are only printed where
    that reading is the intended one;
  * keywords, function names, `pi`, `True`/`False`, `qN`, `Measure...` are never used as variable / parameter names;
  * unary minus binds tighter than `**` in this grammar (`-a**2` is `(-a)**2`): the printer brackets every compound operand
    of `**` and of unary minus, so the text denotes exactly the AST it was printed from.

Expression ASTs are JSON lists:  ["num", "2.5"] ["reg", 12] ["var", "x"] ["par", "a"] ["idx", "A", k, value]
                                 ["neg", e] ["br", e] ["add"|"sub"|"mul"|"div"|"pow", l, r]  ["npw", atom, atom]
"""
import math

RESERVED = {"name", "version", "target", "type", "include", "for", "in", "pi", "True", "False", "array", "float", "complex", "int",
            "str", "bool", "sqrt", "sin", "cos", "tan", "arcsin", "arccos", "arctan", "sinh", "cosh", "tanh", "arcsinh", "arccosh",
            "arctanh", "exp", "log"}

OPS = ["Sgate", "Dgate", "BSgate", "Rgate", "G", "Kgate", "Xgate", "Zgate", "Coherent", "S2gate", "MZgate", "op_1"]
MEASURES = ["MeasureFock", "MeasureHomodyne", "MeasureX", "Measure", "MeasureHD"]
KWNAMES = ["phi", "theta", "r", "x", "select", "cutoff", "k_1", "A"]
DEVICES = ["X8_01", "gaussian", "fock", "dev.sim_1", "TD2", "X12"]

# parameter names of every spelling: prefixes of each other, underscore+digits, p<digits> (looks like a tdm array name),
# single letters that are SymPy singletons, upper case, mixed case
PARAM_NAMES = ["a", "ab", "abc", "b", "alpha_1", "alpha", "p1", "p0", "p12", "x", "X", "Theta", "A", "I", "E", "N", "S", "phi",
               "r_2", "aB", "xx", "t0", "Q"]


def is_name(s):
    return (s not in RESERVED and s[:1].isalpha() and all(c.isalnum() or c == "_" for c in s)
            and not (s[0] == "q" and s[1:].isdigit()) and not s.startswith("Measure"))


# ---------------------------------------------------------------------------------------------------------------------
# numbers

def fmt_num(v):
    """Blackbird literal for a Python int/float/complex (complex: caller must make sure no sign can be absorbed wrongly)"""
    if isinstance(v, bool):
        return "True" if v else "False"
    if isinstance(v, int):
        return str(v)
    if isinstance(v, float):
        return repr(v)
    if isinstance(v, complex):
        s = repr(v)
        return s[1:-1] if s.startswith("(") else s
    raise TypeError(v)


def enc(v):
    """JSON encoding of numeric values (complex has no JSON form)"""
    if isinstance(v, complex):
        return ["c", v.real, v.imag]
    if isinstance(v, (list, tuple)):
        return [enc(x) for x in v]
    return v


def dec(v):
    if isinstance(v, list):
        if len(v) == 3 and v[0] == "c":
            return complex(v[1], v[2])
        return [dec(x) for x in v]
    return v


def rand_int(rng, nonzero=False, small=False):
    while True:
        r = rng.random()
        if small or r < 0.5:
            v = rng.randint(-9, 9)
        elif r < 0.85:
            v = rng.choice([-1, 1]) * rng.randint(10, 10000)
        else:
            v = rng.choice([-1, 1]) * rng.randint(10001, 100000)
        if v != 0 or not nonzero:
            return v


def rand_float(rng, positive=False):
    r = rng.random()
    if r < 0.5:
        v = round(rng.uniform(0.1, 10), rng.choice([1, 2, 4]))
    elif r < 0.75:
        v = rng.uniform(1, 10) * 10.0 ** rng.randint(-5, -1)          # small magnitude
    else:
        v = rng.uniform(1, 10) * 10.0 ** rng.randint(1, 7)            # large magnitude
    if v == 0:
        v = 0.5
    if not positive and rng.random() < 0.4:
        v = -v
    return v


# ---------------------------------------------------------------------------------------------------------------------
# expression ASTs: printing and evaluation with a conditioning estimate

_ATOM = ("num", "reg", "var", "par", "idx", "br")


def show(e):
    k = e[0]
    if k == "num":
        return e[1]
    if k == "reg":
        return "q%d" % e[1]
    if k == "var":
        return e[1]
    if k == "par":
        return "{%s}" % e[1]
    if k == "idx":
        return "%s[%d]" % (e[1], e[2])
    if k == "br":
        return "(" + show(e[1]) + ")"
    if k == "neg":
        return "-" + (show(e[1]) if e[1][0] in _ATOM else "(" + show(e[1]) + ")")
    if k == "npw":                                              # literal text -x**n, which this grammar reads as (-x)**n
        return "-" + show(e[1]) + "**" + show(e[2])
    l, r = e[1], e[2]
    if k == "pow":
        ls = show(l) if l[0] in _ATOM else "(" + show(l) + ")"
        rs = show(r) if r[0] in _ATOM else "(" + show(r) + ")"
        return ls + "**" + rs
    if k in ("mul", "div"):
        ls = show(l) if l[0] in _ATOM + ("mul", "div", "pow", "neg") else "(" + show(l) + ")"
        rs = show(r) if r[0] in _ATOM + ("pow",) else "(" + show(r) + ")"
        return ls + (" * " if k == "mul" else " / ") + rs if len(ls) + len(rs) > 12 else ls + ("*" if k == "mul" else "/") + rs
    if k in ("add", "sub"):
        ls = show(l)
        rs = show(r) if r[0] in _ATOM + ("mul", "div", "pow") else "(" + show(r) + ")"
        return ls + (" + " if k == "add" else " - ") + rs
    raise ValueError(e)


class Unfit(Exception):
    """the expression is outside the property's domain at this point (division by ~0, cancellation, overflow, complex result)"""


def ev(e, env):
    """(value, k): value of the written expression in exact Python arithmetic semantics and an amplification factor k such that
    the relative error of any reasonable floating evaluation order is about k*eps"""
    t = e[0]
    if t == "num":
        s = e[1]
        return ((int(s) if s.lstrip("-").isdigit() else float(s)), 1.0)
    if t == "reg":
        return (env["q%d" % e[1]], 1.0)
    if t in ("var", "par"):
        return (env[e[1]], 1.0)
    if t == "idx":
        return (e[3], 1.0)
    if t == "br":
        return ev(e[1], env)
    if t == "neg":
        v, k = ev(e[1], env)
        return (-v, k)
    if t == "npw":
        return ev(["pow", ["neg", e[1]], e[2]], env)
    (a, ka), (b, kb) = ev(e[1], env), ev(e[2], env)
    if isinstance(a, complex) or isinstance(b, complex):
        raise Unfit("complex")
    if t in ("add", "sub"):
        v = a + b if t == "add" else a - b
        if v == 0:
            if a == 0 and b == 0:
                return (v, 1.0)
            raise Unfit("cancels to zero")
        k = (abs(a) * ka + abs(b) * kb) / abs(v) + 1
    elif t == "mul":
        v, k = a * b, ka + kb + 1
    elif t == "div":
        if b == 0 or abs(b) < 1e-6 * kb:
            raise Unfit("pole")
        v, k = a / b, ka + kb + 1
    elif t == "pow":
        if a == 0 and b <= 0:
            raise Unfit("0**nonpositive")
        if a < 0 and not (isinstance(b, int) or float(b).is_integer()):
            raise Unfit("negative base, fractional exponent")
        if abs(b) > 64:
            raise Unfit("huge exponent")
        try:
            v = a ** b
        except (OverflowError, ZeroDivisionError):
            raise Unfit("overflow")
        k = (abs(b) + 1) * ka + (abs(b * math.log(abs(a))) + 1) * kb + 1 if a != 0 else 1.0
    else:
        raise ValueError(e)
    if isinstance(v, complex):
        raise Unfit("complex")
    if isinstance(v, int) and abs(v) > 2 ** 52:
        raise Unfit("integer beyond int64/float-exact range")
    if isinstance(v, float) and (math.isinf(v) or math.isnan(v) or (v != 0 and not 1e-150 < abs(v) < 1e150)):
        raise Unfit("overflow")
    if k > 1e5:
        raise Unfit("ill-conditioned")
    return (v, k)


def leaves(e, kind):
    if e[0] == kind:
        return [e[1]]
    out = []
    for c in e[1:]:
        if isinstance(c, list):
            out += leaves(c, kind)
    return out


# ---------------------------------------------------------------------------------------------------------------------
# script skeleton

def header(rng, name=None, target=None, typ=None, blank=True):
    lines = ["name %s" % (name or rng.choice(["prog", "t_1", "Test", "myprog2"])), "version 1.0"]
    if target is None and rng.random() < 0.5:
        target = rng.choice(DEVICES) + rng.choice(["", "", " (shots=10)", " (shots=100, cutoff_dim=5)", " (mode=\"fast\")"])
    if target:
        lines.append("target " + target)
    if typ:
        lines.append("type " + typ)
    if blank:
        lines.append("")
    return lines


def array_decl(typ, name, rows, shape=False):
    """rows: list of lists of element TEXTS"""
    head = "%s array %s" % (typ, name)
    if shape:
        head += "[%d, %d]" % (len(rows), len(rows[0]))
    return [head + " ="] + ["    " + ", ".join(r) for r in rows]


def modes_text(rng, modes):
    if len(modes) == 1 and rng.random() < 0.7:
        return modes[0]
    s = ", ".join(modes)
    return rng.choice(["[%s]", "[%s]", "(%s)", "%s"]) % s


def call_text(op, args, kwargs, modes):
    inner = ", ".join(list(args) + ["%s=%s" % kv for kv in kwargs])
    return "%s%s | %s" % (op, "(" + inner + ")" if (args or kwargs) else "", modes)


def number_text(rng, kind=None):
    kind = kind or rng.choice(["int", "int", "float", "float", "exp"])
    if kind == "int":
        return str(rng.randint(0, 20))
    if kind == "float":
        return repr(round(rng.uniform(0.01, 9.99), rng.choice([1, 2, 3])))
    return rng.choice(["1e-3", "2.5e2", "1E1", "3e+2", "0.5e-1"])


def valid_script(rng, n_stmts=None, with_loop=None, typ=None):
    """A valid, loadable non-template script as structured data.
    Returns dict(header=[lines], decls=[[lines]...], items=[[lines]...], scalars={name: type}, arrays={name: (type, n_elements)})
    Items are whole statements or whole for-blocks, so that something can be inserted between any two of them."""
    hdr = header(rng, typ=typ)
    decls, scalars, arrays = [], {}, {}
    for nm, ty in rng.sample([("alpha", "float"), ("n", "int"), ("c", "complex"), ("s", "str"), ("b", "bool"), ("beta_2", "float"),
                              ("k", "int")], rng.randint(2, 5)):
        if ty == "float":
            txt = rng.choice([number_text(rng, "float"), "-" + number_text(rng, "float"), "2*pi", "sqrt(2)/2", "3"])
        elif ty == "int":
            txt = rng.choice([str(rng.randint(0, 9)), "2+3", "-4", "2**3"])
        elif ty == "complex":
            txt = rng.choice(["1+2j", "0.5j", "2", "-1.5-0.5j", "2*1j"])
        elif ty == "str":
            txt = rng.choice(['"fock"', '"a b"', '""'])
        else:
            txt = rng.choice(["True", "False"])
        decls.append(["%s %s = %s" % (ty, nm, txt)])
        scalars[nm] = ty
    for nm in rng.sample(["A", "B", "U_1"], rng.randint(0, 2)):
        ty = rng.choice(["float", "int", "complex"])
        r, c = rng.randint(1, 3), rng.randint(1, 3)
        if ty == "int":
            rows = [[str(rng.randint(-5, 9)) for _ in range(c)] for _ in range(r)]
        elif ty == "float":
            rows = [[rng.choice(["", "-"]) + number_text(rng) for _ in range(c)] for _ in range(r)]
        else:
            rows = [[rng.choice(["1+2j", "0.5j", "2", "-1-1j", "3.0"]) for _ in range(c)] for _ in range(r)]
        decls.append(array_decl(ty, nm, rows, shape=rng.random() < 0.4))
        arrays[nm] = (ty, r * c)
    nums = [n for n, t in scalars.items() if t in ("float", "int")]
    items = []
    n_stmts = n_stmts if n_stmts is not None else rng.randint(2, 6)
    want_loop = with_loop if with_loop is not None else rng.random() < 0.5

    def small_expr():
        r = rng.random()
        if r < 0.35 or not nums:
            return number_text(rng)
        if r < 0.55:
            return rng.choice(nums)
        if r < 0.8:
            return "%s%s%s" % (rng.choice(nums), rng.choice(["*", "/", " + ", " - "]), number_text(rng, "float"))
        if arrays and r < 0.9:
            nm = rng.choice(sorted(arrays))
            if arrays[nm][0] != "complex":
                return "%s[%d]" % (nm, rng.randrange(arrays[nm][1]))
        return rng.choice(["sqrt(2)", "pi/2", "-%s" % number_text(rng), "(1 + 2)*0.5", "cos(0.3)"])

    def statement(extra=None):
        if rng.random() < 0.15:
            op = rng.choice(MEASURES)
            args = [] if rng.random() < 0.6 else []
            kw = [("phi", small_expr())] if rng.random() < 0.3 else []
        else:
            op = rng.choice(OPS)
            args = [small_expr() for _ in range(rng.randint(0, 3))]
            kw = [(k, small_expr()) for k in rng.sample(KWNAMES[:5], rng.choice([0, 0, 1, 2]))]
            if rng.random() < 0.15:
                kw.append(("lst", "[%s]" % ", ".join(small_expr() for _ in range(rng.randint(1, 3)))))
            if rng.random() < 0.1 and arrays:
                args.append(rng.choice(sorted(arrays)))
            if rng.random() < 0.1 and "s" in scalars:
                args.append("s")
        if extra and rng.random() < 0.7:
            args.append(extra)
        modes = [str(m) for m in rng.sample(range(0, 6), rng.randint(1, 3))]
        if extra and rng.random() < 0.5:
            modes[0] = extra
        return call_text(op, args, kw, modes_text(rng, modes))

    for _ in range(n_stmts):
        items.append([statement()])
    if want_loop:
        v = rng.choice(["i", "j", "m"])
        if rng.random() < 0.6:
            head = "for int %s in %s" % (v, rng.choice(["0:3", "1:4", "0:6:2", "2:3"]))
        else:
            head = "for int %s in %s" % (v, rng.choice(["[0, 2, 1]", "[3]", "(1, 2)", "4, 5"]))
        body = ["    " + statement(extra=v) for _ in range(rng.randint(1, 2))]
        items.insert(rng.randint(0, len(items)), [head] + body)
    return {"header": hdr, "decls": decls, "items": items, "scalars": scalars, "arrays": arrays}


def render(sk, trailing_newline=True):
    lines = list(sk["header"])
    for d in sk["decls"]:
        lines += d
    if sk["decls"]:
        lines.append("")
    for it in sk["items"]:
        lines += it
    return "\n".join(lines) + ("\n" if trailing_newline else "")
