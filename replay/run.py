"""Witness runner (bounded layer). /venv/bin/python -m replay.run --prop C03 --n 200 --seed 0 --tier quick
       [--families a,b] [--stop-at-first] [--replay-file out/replay/x.json]

Loads every replay/fam_*.py, selects the families serving the property (or the named ones), generates n cases in total
(split by family weight, deterministic in the seed), checks each against the real code, prints one section.
"""
import argparse
import glob
import importlib
import json
import multiprocessing
import os
import random
import sys
import time
import traceback
import warnings

from vlib import common as C
from . import base


def load_families():
    here = os.path.dirname(os.path.abspath(__file__))
    for path in sorted(glob.glob(os.path.join(here, "fam_*.py"))):
        importlib.import_module("replay." + os.path.basename(path)[:-3])


def _check_one(arg):
    fname, case = arg
    warnings.simplefilter("ignore")
    fam = base.FAMILIES[fname]
    try:
        res = fam.check(case)
        return (fname, case, res, None)
    except Exception:                                            # engine error, not a violation
        return (fname, case, None, traceback.format_exc()[-1500:])


def main():
    ap = argparse.ArgumentParser()
    ap.add_argument("--prop", required=True)
    ap.add_argument("--n", type=int, default=150)
    ap.add_argument("--seed", type=int, default=0)
    ap.add_argument("--tier", default="quick")
    ap.add_argument("--families", default="")
    ap.add_argument("--stop-at-first", action="store_true")
    ap.add_argument("--replay-file")
    ap.add_argument("--case-json", help="check one case {family, input} given as JSON text; prints {failed: bool, expected, actual}")
    ap.add_argument("--jobs", type=int, default=min(16, os.cpu_count() or 4))
    a = ap.parse_args()
    warnings.simplefilter("ignore")
    load_families()

    if a.case_json:
        cj = json.loads(a.case_json)
        fam = base.FAMILIES[cj["family"]]
        res = fam.check({"class": cj.get("class"), "input": cj["input"]})
        print(json.dumps({"failed": res is not None, "expected": None if res is None else str(res.get("expected"))[:500],
                          "actual": None if res is None else str(res.get("actual"))[:500], "class": None if res is None else res.get("class", cj.get("class"))}))
        return 0
    if a.replay_file:
        doc = json.load(open(a.replay_file))
        fl = doc.get("failing_input")
        if not fl:
            print("replay file carries no concrete input (no-failing-input-found); obligation: %s" % doc.get("obligation"))
            print(json.dumps(doc.get("verifier_output"), indent=1)[:3000])
            return 1
        fam = base.FAMILIES[fl["family"]]
        res = fam.check({"class": fl.get("class"), "input": fl["input"]})
        if res is None:
            print("REPLAY PASSES on %s: the real code now agrees with the oracle for this input" % C.REPO)
            return 0
        print("REPLAY FAILS on %s\n input: %s\n expected: %s\n actual:   %s" % (C.REPO, json.dumps(fl["input"])[:2000], res.get("expected"), res.get("actual")))
        return 1

    if a.families:
        fams = [base.FAMILIES[f] for f in a.families.split(",") if f in base.FAMILIES]
        missing = [f for f in a.families.split(",") if f not in base.FAMILIES]
    else:
        fams = [f for f in base.FAMILIES.values() if a.prop in f.props]
        missing = []
    section = {"engine": "witness", "obligations": [], "bounded": [], "errors": [], "notes": [],
               "assumptions": ["bounded layer: samples only; a pass here proves nothing beyond the cases run"]}
    for m in missing:
        section["notes"].append("family %s not available" % m)
    if not fams:
        section["notes"].append("no witness family registered for %s" % a.prop)
        C.emit_section(section)
        return 0
    wsum = sum(f.weight for f in fams)
    t_all = time.time()
    pool = multiprocessing.Pool(a.jobs) if a.jobs > 1 else None
    try:
        for fam in sorted(fams, key=lambda f: f.name):
            n = max(8, int(round(a.n * fam.weight / wsum)))
            rng = random.Random("%s/%s/%d" % (a.prop, fam.name, a.seed))
            t0 = time.time()
            try:
                cases = list(fam.cases(rng, n, a.tier))
            except Exception:
                section["errors"].append("family %s: case generation crashed: %s" % (fam.name, traceback.format_exc()[-1500:]))
                continue
            work = [(fam.name, c) for c in cases]
            if pool is not None and fam.parallel and len(work) > 4:
                results = pool.map(_check_one, work, chunksize=max(1, len(work) // (a.jobs * 4)))
            else:
                results = []
                for w in work:
                    results.append(_check_one(w))
                    if a.stop_at_first and results[-1][2] is not None:
                        break
            failures, distinct = [], set()
            for fname, case, res, err in results:
                distinct.add(json.dumps(case.get("input"), sort_keys=True, default=str))
                if err:
                    section["errors"].append("family %s: check crashed on %s: %s" % (fname, json.dumps(case.get("input"), default=str)[:400], err))
                    continue
                if res is not None:
                    cls = res.get("class", case.get("class", ""))
                    failures.append({"family": fname, "class": cls, "input": case["input"], "expected": res.get("expected"), "actual": res.get("actual"),
                                     "repro": "cd /verif && ./check %s --replay <this file>" % a.prop})
            failures.sort(key=lambda f: (str(f["class"]), len(json.dumps(f["input"], default=str))))
            # at most 3 (the smallest) per input class, so that a frequent class -- a listed known finding, say -- never crowds out another one
            kept, per = [], {}
            for f in failures:
                per[str(f["class"])] = per.get(str(f["class"]), 0) + 1
                if per[str(f["class"])] <= 3:
                    kept.append(f)
            section["bounded"].append({"name": fam.name, "bound": fam.bound, "rule": fam.rule, "cases": len(results), "distinct": len(distinct),
                                       "samples": [c["input"] for c in cases[:2]], "failures": kept[:90], "n_failures": len(failures),
                                       "wall_s": round(time.time() - t0, 2)})
            if a.stop_at_first and failures:
                break
    finally:
        if pool is not None:
            pool.close()
            pool.join()
    section["extra"] = {"wall_s": round(time.time() - t_all, 2), "families": [f.name for f in fams]}
    C.emit_section(section)
    return 0


if __name__ == "__main__":
    sys.exit(main())
