"""spec_rt: CONCRETE execution of the sidecar spec functions (contracts/c_*.py) -- the cross-check DESIGN 2.2 promised.

PyVC proves, per function, "real function == sidecar spec function" symbolically.  If its symbolic semantics were unsound somewhere
(it "proved" real == spec although the two differ), or if it read an ALLCAPS primitive differently from what the contract means,
then running the SPEC-LEVEL PROGRAM concretely and comparing it with the real code on concrete inputs can expose it.  This module
builds that spec-level program:

  * the sidecars are read with `ast` (never imported as modules); every FunctionDef in them (spec_* functions and the helpers
    UNDEFINED, RESERVED_NAME_CHECK, APPLY_FN, ANY_FUNCTION_TOKEN, VAL, INV_PARENT, REQ_syntaxError) is compiled, with the sidecar's
    file name and line numbers, into ONE namespace -- the module tables `_VAR` / `_PARAMS` are one dict / one list owned by the
    runtime and shared by all spec functions exactly as the real tables are shared by auxiliary.py and listener.py;
  * a name of a function under contract is bound to the CALLEE'S SPEC (`_expression` -> spec__expression, ...; CONTRACTS[...]["spec"]),
    with the defaults the contract declares (the modular reading of a call), so the spec-level program is closed under calls;
  * classes under contract (BlackbirdProgram, RegRefTransform, BlackbirdListener, _BlackbirdExprPrinter) are spec-level classes whose
    __init__ / methods / properties ARE the spec functions (`"ctor": True`, `getter_*`, `qual: "Class.method"`).  The spec-level
    BlackbirdListener subclasses the generated blackbirdListener so that antlr4's ParseTreeWalker drives the spec handlers;
  * ALLCAPS primitives get the concrete reading documented in pyvc/lib.py (`assumed(...)` texts, handlers, `axioms()`).

What is deliberately SHARED with the real package (trusted base of both sides, no spec function exists for it): the generated lexer /
parser / listener base class, error.BlackbirdErrorListener and the exception classes BlackbirdSyntaxError / TemplateError (outcomes
are compared by exception class, so both sides must raise the same class objects), NumPy / SymPy / networkx / antlr4 themselves.
Nothing below reads the real auxiliary.py / listener.py / program.py / utils.py / __init__.py function bodies.
"""
import ast
import collections
import collections.abc
import contextlib
import copy
import os
import re
import sys
import types
import warnings

HERE = os.path.dirname(os.path.abspath(__file__))
CONTRACT_DIR = os.environ.get("VERIF_CONTRACTS") or os.path.join(os.path.dirname(HERE), "contracts")
PYVC_CONTEXT = os.path.join(os.path.dirname(HERE), "pyvc", "context.py")

# attributes read WITHOUT a call in the specs (`listener.program`, `self.name`, `bb.parameters`): pyvc/context.py PROPERTY_FIELDS plus the
# `parameters` attr_hook.  Read from context.py with ast when available (single source); this literal is the fallback.
_PROPERTY_FALLBACK = {"name", "version", "modes", "target", "programtype", "operations", "variables", "program", "parameters"}

_ELEMENTARY = ("exp", "log", "sin", "cos", "tan", "arcsin", "arccos", "arctan", "sinh", "cosh", "tanh", "arcsinh", "arccosh", "arctanh", "sqrt")


class SpecRuntimeError(Exception):
    """the spec-level program could not be built / a primitive has no concrete reading (an engine error, never a mismatch)"""


def _property_names():
    names = set(_PROPERTY_FALLBACK)
    try:
        tree = ast.parse(open(PYVC_CONTEXT).read())
        for n in tree.body:
            if isinstance(n, ast.Assign) and isinstance(n.targets[0], ast.Name) and n.targets[0].id == "PROPERTY_FIELDS":
                names = set(ast.literal_eval(n.value)) | {"parameters"}
    except (OSError, SyntaxError, ValueError):
        pass
    return names


# ---------------------------------------------------------------------------------------------------------------------
# ALLCAPS primitives: concrete readings.  Source of each reading in brackets.

def _primitives(np, sym, antlr4):
    def IS_INTKIND(x):
        # [lib.axioms: is_intkind(x) == isinst_int(x) or isinst_np.integer(x); bool < int]
        return isinstance(x, (int, np.integer))

    def IS_COMPLEXKIND(x):
        # [lib.axioms: is_complexkind(x) == isinst_complex(x) or isinst_np.complexfloating(x)]
        return isinstance(x, (complex, np.complexfloating))

    def IS_NEGATIVE(x):
        # [lib.axioms: for integer kinds is_negative(x) == x < 0; the contracts only ask it of integer kinds]
        return bool(x < 0)

    def IS_CTX(x):
        # [c_error / postcheck: "contexts are truthy objects": a parser rule context]
        return isinstance(x, antlr4.ParserRuleContext)

    def IS_DICT(x):
        return isinstance(x, dict)

    def ADD(x, y):
        # [A-numpy-arith: np.sum([x,y],axis=0) = ADD(x,y) for scalars and SymPy operands]
        return np.sum([x, y], axis=0)

    def MUL(x, y):
        # [A-numpy-arith: np.prod([x,y],axis=0) = MUL(x,y)]
        return np.prod([x, y], axis=0)

    def NEG(x):
        # [pyvc/sym.py: Python's unary minus IS the term NEG(x)]
        return -x

    def POW(x, y):
        # [A-numpy-arith: np.power(x,y) = POW(x,y); raises ValueError iff both operands are integer kinds and y < 0]
        return np.power(x, y)

    def RECIP(x):
        # [lib.axioms, the only two facts about RECIP: not intkind(x) -> POW(x, -1) == RECIP(x);  intkind(x) -> RECIP(float(x)) == RECIP(x),
        #  float(x) never raises and is not integer-kind.  So RECIP(x) = POW(x, -1) computed on float(x) for integer kinds.  Deliberately NOT
        #  1/x: Python's 1/0.0 raises ZeroDivisionError whereas the contract says of DIV "never raises" (np.power(0.0, -1) is inf).]
        if IS_INTKIND(x):
            return np.power(float(x), -1)
        return np.power(x, -1)

    def SUB(x, y):
        # [lib.axioms: SUB(x,y) == ADD(x, NEG(y))]
        return ADD(x, NEG(y))

    def DIV(x, y):
        # [lib.axioms: DIV(x,y) == MUL(x, RECIP(y))]
        return MUL(x, RECIP(y))

    def POWF(x, y):
        # [lib.axioms: intkind(x), intkind(y), y<0 -> POW(float(x), y) == POWF(x, y)]
        return np.power(float(x), y)

    def SYMBOL(n):
        # [lib: Symbol / sym.Symbol(n) is the term SYMBOL(n); A-sympy: equality by name]
        return sym.Symbol(n)

    def PI_CONST():
        # [pyvc/context.py dotted(): the attribute np.pi is the term PI_CONST()]
        return np.pi

    def FLAT_ROWMAJOR(a):
        # [lib method "flatten": ndarray.flatten() without arguments is FLAT_ROWMAJOR(a) (row-major, A-numpy-array)]
        return a.flatten()

    FLAT = FLAT_ROWMAJOR                  # only named in comments of the sidecars

    def CAST(t, v):
        # only named in comments (C05 "scalars hold CAST(T, value)"); the specs spell the cast PYTHON_TYPES[t](v) themselves
        raise SpecRuntimeError("CAST is a comment-level name; no spec function calls it")

    def SUBST(v, values):
        # only named in a comment of spec__bind_parameters [A-sympy: lambdify(L,e)(**vals) = SUBST(e, vals)]
        L = list(v.free_symbols)
        return sym.lambdify(L, v)(*[values[str(p)] for p in L])

    def PARAMSET(params):
        # [context.attr_hook: BlackbirdProgram.parameters is PARAMSET(_parameters): the set of the parameters' names]
        return set(str(p) for p in params)

    def DEEPCOPY(x):
        return copy.deepcopy(x)

    _absent = type("ABSENT", (), {"__repr__": lambda self: "ABSENT()", "__bool__": lambda self: False})()

    def ABSENT():
        # only used by the helper VAL (which no spec function calls): "no value" of a grammar-less branch
        return _absent

    def WARN_POSITIONAL_IGNORED():
        # [lib "warnings.warn": an effect outside the properties; message / category are not part of any term.  Nothing compares it.]
        warnings.warn("positional arguments are ignored here (spec_rt)", SyntaxWarning, stacklevel=2)

    partial_table = {"POW": np.power}
    for f in _ELEMENTARY:
        # [lib: FUNCS["np."+f] is partial(..., "FN_"+f, x); A-numpy-arith: "the 15 elementary ufuncs compute the named functions"]
        partial_table["FN_" + f] = getattr(np, f)

    def PARTIAL(name, *args):
        # [context.spec_primitive -> lib.partial(name, *args): the partial library operation called `name`, exception outcome included]
        try:
            f = partial_table[name]
        except KeyError:
            raise SpecRuntimeError("partial primitive %r has no concrete reading in spec_rt" % (name,))
        return f(*args)

    prims = dict(locals())
    for k in ("np", "sym", "antlr4", "partial_table", "f", "_absent"):
        prims.pop(k, None)
    return prims, partial_table


# ---------------------------------------------------------------------------------------------------------------------

class _Sidecar:
    def __init__(self, path):
        self.path = path
        self.tree = ast.parse(open(path).read(), filename=path)
        self.module, self.globals, self.global_types, self.consts, self.contracts, self.funcs = None, [], {}, {}, {}, {}
        for n in self.tree.body:
            if isinstance(n, ast.Assign) and len(n.targets) == 1 and isinstance(n.targets[0], ast.Name):
                nm = n.targets[0].id
                if nm in ("MODULE", "GLOBALS", "GLOBAL_TYPES", "CONSTS", "CONTRACTS"):
                    val = ast.literal_eval(n.value)
                    setattr(self, {"MODULE": "module", "GLOBALS": "globals", "GLOBAL_TYPES": "global_types", "CONSTS": "consts",
                                   "CONTRACTS": "contracts"}[nm], val)
            elif isinstance(n, ast.FunctionDef):
                self.funcs[n.name] = n


def _const_ast(v):
    """contract-level default -> expression: None / literals as they are, "empty_tuple" -> (), "class:X" -> the name X"""
    if isinstance(v, str) and v == "empty_tuple":
        return ast.Tuple(elts=[], ctx=ast.Load())
    if isinstance(v, str) and v.startswith("class:"):
        return ast.parse(v[6:], mode="eval").body
    return ast.Constant(value=v)


class SpecRuntime:
    """the spec-level program.  `ns` is its single namespace; `loads`, `load`, `dumps`, `to_DiGraph`, `match_template`,
    `BlackbirdProgram`, `RegRefTransform`, `BlackbirdListener` are shortcuts into it."""

    BASES = {"BlackbirdListener": "__base_blackbirdListener", "_BlackbirdExprPrinter": "__base_StrPrinter"}

    def __init__(self, contract_dir=None):
        import antlr4
        import networkx as nx
        import numpy as np
        import sympy as sym
        from networkx.algorithms import isomorphism
        from sympy.printing.str import StrPrinter
        from sympy.solvers import solve
        # shared trusted base (see module docstring): generated artefacts, the error listener (unary contract, no spec function), exception classes
        from blackbird.blackbirdLexer import blackbirdLexer
        from blackbird.blackbirdListener import blackbirdListener
        from blackbird.blackbirdParser import blackbirdParser
        from blackbird.error import BlackbirdErrorListener, BlackbirdSyntaxError
        from blackbird.utils import TemplateError

        self.contract_dir = contract_dir or CONTRACT_DIR
        self.sidecars = [_Sidecar(os.path.join(self.contract_dir, f)) for f in sorted(os.listdir(self.contract_dir))
                         if f.startswith("c_") and f.endswith(".py")]
        self.property_names = _property_names()
        prims, self.partial_table = _primitives(np, sym, antlr4)
        self.primitives = dict(prims)
        ns = self.ns = {"__name__": "spec_rt_program", "__builtins__": __builtins__}
        ns.update(prims)
        ns.update({
            "np": np, "sym": sym, "os": os, "copy": copy, "re": re, "antlr4": antlr4, "warnings": warnings, "nx": nx, "isomorphism": isomorphism,
            "solve": solve,                                        # [lib "solve": sympy.solvers.solve, A-sympy]
            "Iterable": collections.abc.Iterable,                  # the Python notion (typing.Iterable delegates to it for isinstance)
            "blackbirdParser": blackbirdParser, "blackbirdLexer": blackbirdLexer, "BlackbirdErrorListener": BlackbirdErrorListener,
            "BlackbirdSyntaxError": BlackbirdSyntaxError, "TemplateError": TemplateError,
            # [c_utils: "one node per operation (attributes name / args / kwargs / modes as tuple)"; lib "Command" / "_asdict": a named tuple]
            "Command": collections.namedtuple("Command", ["name", "args", "kwargs", "modes"]),
            "__base_blackbirdListener": blackbirdListener,        # so that antlr4's ParseTreeWalker can drive the spec handlers
            "__base_StrPrinter": StrPrinter,                      # [c_program: "the two overrides of sympy's StrPrinter"]
        })
        # module tables: ONE object per name for the whole spec-level program (GLOBALS / GLOBAL_TYPES of the sidecars)
        for sc in self.sidecars:
            for g in sc.globals:
                if g not in ns:
                    ns[g] = {"dict": dict, "list": list, "set": set}[sc.global_types.get(g, "dict")]()
        # constant tables: the values the sidecars declare under CONSTS ("class:np.float64" -> the class)
        self.consts = {}
        for sc in self.sidecars:
            for cname, table in sc.consts.items():
                self.consts[cname] = ns[cname] = {k: self._const(v) for k, v in table.items()}
        self.spec_functions, self.helpers, self.bindings, self.classes, self.not_bound = {}, {}, {}, {}, []
        for sc in self.sidecars:
            self._exec_sidecar(sc)
        self._bind_functions()
        self.unresolved = self._closedness()
        if self.unresolved:
            raise SpecRuntimeError("the spec-level program is not closed: unresolved names %r" % (self.unresolved,))

    # ------------------------------------------------------------------------------------------------ construction
    def _const(self, v):
        if isinstance(v, str) and v.startswith("class:"):
            return eval(v[6:], {"np": self.ns["np"], "sym": self.ns["sym"]})
        return v

    def _exec_sidecar(self, sc):
        """compile the sidecar's functions (own names) and the classes whose methods its contracts describe, under the sidecar's file name"""
        body = [copy.deepcopy(f) for f in sc.funcs.values()]
        by_class = collections.OrderedDict()
        for key, c in sc.contracts.items():
            spec = c.get("spec")
            qual = c.get("qual", key)
            if spec is None:
                self.not_bound.append((qual, "no spec function (contract mode %s)" % c.get("mode", "equiv")))
                continue
            if spec not in sc.funcs:
                raise SpecRuntimeError("contract %s names the spec %s which %s does not define" % (key, spec, sc.path))
            self.spec_functions[spec] = qual
            if "." in qual:
                cls, meth = qual.split(".", 1)
                by_class.setdefault(cls, []).append((meth, key, c))
        for cls, methods in by_class.items():
            cbody = []
            for meth, key, c in methods:
                f = copy.deepcopy(sc.funcs[c["spec"]])
                f.name = meth
                params = [a.arg for a in f.args.args]
                if params != c["params"]:
                    raise SpecRuntimeError("%s: parameters %r differ from the contract's %r" % (c["spec"], params, c["params"]))
                dflt = c.get("defaults", {})
                if dflt:
                    tail = params[len(params) - len(dflt):]
                    if set(tail) != set(dflt):
                        raise SpecRuntimeError("%s: defaults %r are not the trailing parameters" % (c["spec"], dflt))
                    f.args.defaults = [_const_ast(dflt[p]) for p in tail]
                if meth in self.property_names and not c.get("ctor"):
                    f.decorator_list = [ast.Name(id="property", ctx=ast.Load())]
                cbody.append(f)
                self.bindings["%s.%s" % (cls, meth)] = c["spec"]
            base = self.BASES.get(cls)
            body.append(ast.ClassDef(name=cls, bases=[ast.Name(id=base, ctx=ast.Load())] if base else [], keywords=[], body=cbody,
                                     decorator_list=[], type_params=[]))
            self.classes[cls] = [m for m, _, _ in methods]
        for n in body:
            if isinstance(n, ast.FunctionDef) and n.name not in self.spec_functions:
                self.helpers[n.name] = sc.path
        mod = ast.Module(body=body, type_ignores=[])
        ast.fix_missing_locations(mod)
        exec(compile(mod, sc.path, "exec"), self.ns)
        sc.compiled = mod

    def _bind_functions(self):
        """names of plain functions under contract -> their spec function, with the contract's defaults (evaluated now: every class exists)"""
        for sc in self.sidecars:
            for key, c in sc.contracts.items():
                qual = c.get("qual", key)
                if "." in qual or c.get("spec") is None:
                    continue
                f = self.ns[c["spec"]]
                params = list(f.__code__.co_varnames[:f.__code__.co_argcount])
                if params != c["params"]:
                    raise SpecRuntimeError("%s: parameters %r differ from the contract's %r" % (c["spec"], params, c["params"]))
                dflt = c.get("defaults", {})
                tail = params[len(params) - len(dflt):] if dflt else []
                if set(tail) != set(dflt):
                    raise SpecRuntimeError("%s: defaults %r are not the trailing parameters" % (c["spec"], dflt))
                values = tuple(eval(compile(ast.fix_missing_locations(ast.Expression(_const_ast(dflt[p]))), "<default>", "eval"), self.ns) for p in tail)
                g = types.FunctionType(f.__code__, self.ns, key, values or None, f.__closure__)
                g.__qualname__ = key
                self.ns[key] = g
                self.bindings[key] = c["spec"]

    def _closedness(self):
        """every global name a compiled function reads must resolve in the namespace (or builtins)"""
        import builtins
        missing = {}
        for sc in self.sidecars:
            for f in ast.walk(sc.compiled):
                if not isinstance(f, ast.FunctionDef):
                    continue
                bound = set()
                for n in ast.walk(f):
                    if isinstance(n, ast.arg):
                        bound.add(n.arg)
                    elif isinstance(n, ast.Name) and isinstance(n.ctx, (ast.Store, ast.Del)):
                        bound.add(n.id)
                    elif isinstance(n, (ast.FunctionDef, ast.ClassDef)) and n is not f:
                        bound.add(n.name)
                for n in ast.walk(f):
                    if isinstance(n, ast.Name) and isinstance(n.ctx, ast.Load) and n.id not in bound and n.id not in self.ns and not hasattr(builtins, n.id):
                        missing.setdefault(f.name, set()).add(n.id)
        return {k: sorted(v) for k, v in missing.items()}

    # ------------------------------------------------------------------------------------------------ shortcuts
    def __getattr__(self, name):
        if name in ("loads", "load", "dumps", "dump", "parse", "to_DiGraph", "match_template", "BlackbirdProgram", "RegRefTransform", "BlackbirdListener"):
            return self.ns[name]
        raise AttributeError(name)

    @property
    def tables(self):
        return self.ns["_VAR"], self.ns["_PARAMS"]

    def describe(self):
        """what the runtime covers, for reports / the family's bound text"""
        return {"sidecars": [os.path.basename(s.path) for s in self.sidecars],
                "spec_functions": dict(self.spec_functions), "helpers": sorted(self.helpers), "bindings": dict(self.bindings),
                "classes": dict(self.classes), "primitives": sorted(k for k in self.primitives if k not in self.helpers),
                "partial": sorted(self.partial_table), "consts": {k: sorted(v) for k, v in self.consts.items()}, "not_bound": list(self.not_bound)}

    @contextlib.contextmanager
    def trace(self, counts):
        """count calls of the compiled sidecar functions into `counts` ({function name: n}) while the block runs"""
        paths = {s.path for s in self.sidecars}

        def prof(frame, event, arg):
            if event == "call" and frame.f_code.co_filename in paths:
                n = frame.f_code.co_qualname if hasattr(frame.f_code, "co_qualname") else frame.f_code.co_name
                counts[n] = counts.get(n, 0) + 1
        old = sys.getprofile()
        sys.setprofile(prof)
        try:
            yield counts
        finally:
            sys.setprofile(old)


_RT = None


def runtime():
    """the process-wide spec-level program (built on first use; its module tables persist across loads like the real ones)"""
    global _RT
    if _RT is None:
        _RT = SpecRuntime()
    return _RT


def spec_loads(text):
    return runtime().ns["loads"](text)


def spec_load(path):
    return runtime().ns["load"](path)


if __name__ == "__main__":
    import json
    rt = runtime()
    print(json.dumps(rt.describe(), indent=1, default=str))
    p = spec_loads("name a\nversion 1.0\nfloat array A[1, 2] =\n    1, 2\nfor int i in 0:2\n    G(A[i] / 2, k=[1, 2j], t=q1 + 1) | [i, 1]\n")
    print(p.operations, p.variables, rt.ns["dumps"](p))
