#!/bin/sh
# tools/bdbg.sh <patch.diff> <functions,comma> : apply a patch to a scratch copy and print the open PyVC obligations of the named functions (both attempts)
M=/root/scratch/bdbg_$$; rm -rf $M; mkdir -p $M; cp -r /repo/blackbird_python /repo/src /repo/Makefile $M/
( cd $M && git init -q . && git apply "$1" ) || { echo "patch failed"; exit 3; }
cd /verif
VERIF_CF_DEBUG=1 VERIF_REPO=$M python3-vt -m pyvc.run --prop ALL --functions "$2" 2>/root/scratch/bdbg.err | python3 -c "
import json,sys
d=json.load(sys.stdin)
for o in d['obligations']:
    if o['status']!='discharged': print(o['name'], o['status'], '|', (o.get('goal') or '')[:300].replace('\n',' '), '|', (o.get('detail') or '')[:300].replace('\n',' '), '|', o.get('info'))
print(d['errors'])"
grep "^CF-ATTEMPT" /root/scratch/bdbg.err | cut -c1-600 | head -${3:-12}
rm -rf $M
