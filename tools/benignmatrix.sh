#!/bin/sh
# tools/benignmatrix.sh : every behaviour-preserving edit under benign/ against the checks of its properties; all must stay quiet (exit 0)
cd /verif; out=/root/scratch/benignmatrix.txt; : > $out; n=0
sel="$@"; [ -z "$sel" ] && sel=$(ls benign)
for b in $sel; do
  ps=$(python3 -c "import json;print(' '.join(json.load(open('benign/$b/meta.json'))['props_to_run']))")
  ( tools/benignrun.sh $b /verif/benign/$b/patch.diff $ps >> $out 2>&1 ) &
  n=$((n+1)); [ $((n % 4)) -eq 0 ] && wait
done; wait
sort $out | awk '{print $1, $2, $3, $4}'
echo "quiet: $(grep -c 'exit=0' $out) / $(grep -c 'exit=' $out)   alarms: $(grep -c 'exit=1' $out)   degraded(unreachable>0): $(grep -v 'unreachable=0' $out | grep -c 'exit=')"
