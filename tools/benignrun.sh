#!/bin/sh
# tools/benignrun.sh <id> <patch.diff> <prop> [props...] : apply a behaviour-preserving edit to a scratch copy; the checks must stay quiet (exit 0)
id=$1; patch=$2; shift 2
M=/root/scratch/benign_$id
rm -rf "$M"; mkdir -p "$M"; cp -r /repo/blackbird_python /repo/src /repo/blackbird_cpp /repo/Makefile "$M"/
( cd "$M" && git init -q . >/dev/null 2>&1; git apply "$patch" ) || { echo "$id patch failed"; exit 3; }
cd /verif
for p in "$@"; do
  VERIF_REPO=$M ./check $p > /root/scratch/benign_$id.$p.log 2>&1; code=$?
  echo "$id $p exit=$code unreachable=$(grep -c '^UNREACHABLE' /root/scratch/benign_$id.$p.log) $(grep '^VIOLATION' /root/scratch/benign_$id.$p.log | sed 's/.*replay=.*replay\///' | tr '\n' ' ' | cut -c1-260)"
done
rm -rf "$M"
