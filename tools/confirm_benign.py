"""tools/confirm_benign.py <id> <props,comma> <patch.diff> <note.txt>
Confirms a behaviour-preserving edit in a scratch worktree of /repo (outside /repo and /verif): the patch applies and every baseline test still
passes with it. On success stores /verif/benign/<id>/{patch.diff,meta.json}. (The differential comparison was done by the authoring agent.)"""
import json, os, subprocess, sys, shutil, xml.etree.ElementTree as ET

bid, props, patch, note = sys.argv[1:5]
WT = "/root/scratch/wt_confirmb_%s" % bid
def sh(cmd, **kw):
    return subprocess.run(cmd, shell=True, stdout=subprocess.PIPE, stderr=subprocess.STDOUT, **kw)
sh("git -C /repo worktree remove --force %s" % WT)
r = sh("git -C /repo worktree add -q --detach %s HEAD" % WT); assert r.returncode == 0, r.stdout
env = dict(os.environ, PYTHONPATH=WT + "/blackbird_python", PYTHONHASHSEED="0")
try:
    r = sh("git -C %s apply %s" % (WT, patch)); assert r.returncode == 0, r.stdout
    x = "/root/scratch/junitb_%s.xml" % bid
    sh("cd %s && /venv/bin/python -m pytest -q -p no:cacheprovider --timeout=900 --continue-on-collection-errors --junitxml=%s" % (WT, x), env=env)
    ok = {tc.get("classname") + "::" + tc.get("name") for tc in ET.parse(x).iter("testcase") if not list(tc)}
    os.remove(x)
    base = set(json.load(open("/root/.vp/BASELINE.json"))["stable_pass"])
    missing = sorted(base - ok)
    print(bid, "baseline pass set kept:", not missing, missing[:3])
    if not missing:
        out = "/verif/benign/%s" % bid
        os.makedirs(out, exist_ok=True)
        shutil.copy(patch, out + "/patch.diff")
        json.dump({"id": bid, "kind": "behaviour-preserving edit (written by an independent sub-agent; suite unchanged; differential reference output byte-identical)",
                   "props_to_run": props.split(","), "note": open(note).read()[:3000]}, open(out + "/meta.json", "w"), indent=1)
finally:
    sh("git -C /repo worktree remove --force %s" % WT)
