"""tools/confirm_seed.py <seed-id> <prop> <patch.diff> <demo.py> <note.txt>
Confirms a seeded change in a scratch worktree of /repo (outside /repo and /verif): the suite's pass set is unchanged with the change, the
demonstration fails with it and passes without it. On success stores /verif/seeded/<seed-id>/{patch.diff,demo.py,meta.json}."""
import json, os, subprocess, sys, shutil, xml.etree.ElementTree as ET

sid, prop, patch, demo, note = sys.argv[1:6]
WT = "/root/scratch/wt_confirm_%s" % sid
def sh(cmd, **kw):
    return subprocess.run(cmd, shell=True, stdout=subprocess.PIPE, stderr=subprocess.STDOUT, **kw)
sh("git -C /repo worktree remove --force %s" % WT)
r = sh("git -C /repo worktree add -q --detach %s HEAD" % WT); assert r.returncode == 0, r.stdout
env = dict(os.environ, PYTHONPATH=WT + "/blackbird_python", PYTHONHASHSEED="0")
def suite():
    x = "/root/scratch/junit_%s.xml" % sid
    sh("cd %s && /venv/bin/python -m pytest -q -p no:cacheprovider --timeout=900 --continue-on-collection-errors --junitxml=%s" % (WT, x), env=env)
    ok = set()
    for tc in ET.parse(x).iter("testcase"):
        if not list(tc):
            ok.add(tc.get("classname") + "::" + tc.get("name"))
    os.remove(x)
    return ok
base = set(json.load(open("/root/.vp/BASELINE.json"))["stable_pass"])
try:
    d0 = sh("/venv/bin/python %s" % demo, env=env, cwd="/root/scratch")
    r = sh("git -C %s apply %s" % (WT, patch)); assert r.returncode == 0, r.stdout
    ok = suite()
    missing = sorted(base - ok)
    d1 = sh("/venv/bin/python %s" % demo, env=env, cwd="/root/scratch")
    res = {"suite_baseline_pass_kept": not missing, "missing": missing[:5], "demo_exit_without": d0.returncode, "demo_exit_with": d1.returncode}
    print(sid, res)
    good = (not missing) and d0.returncode == 0 and d1.returncode != 0
    if good:
        out = "/verif/seeded/%s" % sid
        os.makedirs(out, exist_ok=True)
        shutil.copy(patch, out + "/patch.diff"); shutil.copy(demo, out + "/demo.py")
        meta = {"id": sid, "property": prop, "needs_to_manifest_and_note": open(note).read()[:3000],
                "confirmed": {"worktree": "scratch git worktree of /repo HEAD %s" % sh("git -C /repo rev-parse --short HEAD").stdout.decode().strip(),
                              "suite": "all %d baseline tests still pass with the change" % len(base),
                              "demo_without_change_exit": d0.returncode, "demo_with_change_exit": d1.returncode,
                              "demo_with_change_output_tail": d1.stdout.decode()[-600:]},
                "files_touched": [l[6:] for l in open(patch).read().splitlines() if l.startswith("+++ b/")]}
        json.dump(meta, open(out + "/meta.json", "w"), indent=1)
    sys.exit(0 if good else 1)
finally:
    sh("git -C /repo worktree remove --force %s" % WT)
