#!/bin/sh
# developer helper: mutrun.sh <file-rel> <old> <new> -- <command...>  : textual replacement on a scratch copy of the repo, run command with VERIF_REPO
set -e
M=${MUTDIR:-/root/scratch/mutrepo}
rm -rf "$M"; mkdir -p "$M"; cp -r /repo/blackbird_python /repo/src /repo/blackbird_cpp /repo/Makefile "$M"/
python3 - "$M/$1" "$2" "$3" <<'PY'
import sys
p,old,new=sys.argv[1:4]
s=open(p,newline='').read()
assert s.count(old)>=1, "pattern not found"
s=s.replace(old,new,1)
open(p,'w',newline='').write(s)
PY
shift 3; shift
cd /verif; VERIF_REPO=$M "$@"
