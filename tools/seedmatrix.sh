#!/bin/sh
# tools/seedmatrix.sh [ids...] : run every seeded change against the check of its own property, 5 at a time; summary in /root/scratch/seedmatrix.txt
cd "$(dirname "$0")/.."
ids="$@"; [ -z "$ids" ] && ids=$(ls seeded)
out=/root/scratch/seedmatrix.txt; : > $out
n=0
for s in $ids; do
  p=$(python3 -c "import json;print(json.load(open('seeded/$s/meta.json'))['property'])")
  ( tools/seedrun.sh $s $p >> $out 2>&1 ) &
  n=$((n+1)); [ $((n % 5)) -eq 0 ] && wait
done
wait
sort $out | awk '{print $1, $2, $3, $4}' 
echo "caught: $(grep -c 'exit=1' $out) / $(wc -l < $out)"
