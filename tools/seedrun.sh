#!/bin/sh
# tools/seedrun.sh <seed-id> <prop> [more props...] : run ./check <prop> against a scratch copy of /repo with seeded/<id>/patch.diff applied
sid=$1; shift
V=$(cd "$(dirname "$0")/.." && pwd)
M=/root/scratch/seedrun_$sid
rm -rf "$M"; mkdir -p "$M"; cp -r /repo/blackbird_python /repo/src /repo/blackbird_cpp /repo/Makefile "$M"/
( cd "$M" && git init -q . >/dev/null 2>&1; git apply $V/seeded/$sid/patch.diff ) || { echo "patch failed"; exit 3; }
cd $V
for p in "$@"; do
  VERIF_REPO=$M ./check $p > /root/scratch/seedrun_$sid.$p.log 2>&1; code=$?
  echo "$sid $p exit=$code $(grep -c '^VIOLATION' /root/scratch/seedrun_$sid.$p.log) violations: $(grep '^VIOLATION' /root/scratch/seedrun_$sid.$p.log | sed 's/.*replay=.*replay\///' | tr '\n' ' ' | cut -c1-300)"
done
rm -rf "$M"
