"""tools/seedtable.py : the table of DESIGN I.9 from the logs of tools/seedmatrix.sh (/root/scratch/seedrun_<id>.<prop>.log): per seeded change the
files it touches, its title, the failed obligations (deductive engines) and the witness classes with a replayed failing input."""
import glob, json, os, re, sys

rows = []
for sid in sorted(os.listdir("/verif/seeded")):
    m = json.load(open("/verif/seeded/%s/meta.json" % sid))
    prop = m["property"]
    log = "/root/scratch/seedrun_%s.%s.log" % (sid, prop)
    title = " ".join(m.get("needs_to_manifest_and_note", "").split())[:170].replace("|", "/")
    files = ", ".join(sorted({os.path.basename(f) for f in m.get("files_touched", [])})) or "?"
    obs, wit, code = [], [], "?"
    if os.path.exists(log):
        for ln in open(log):
            if ln.startswith("VIOLATION"):
                r = re.search(r"replay=\S*/%s-(\S+)\.json" % prop, ln)
                if not r:
                    continue
                n = r.group(1)
                (wit if n.startswith("bounded_") else obs).append(n[8:] if n.startswith("bounded_") else n)
            if ln.startswith("exit "):
                code = ln.split()[1]
    def short(xs, k):
        xs = sorted(set(xs))
        return ", ".join(x[:70] for x in xs[:k]) + (" … +%d" % (len(xs) - k) if len(xs) > k else "") if xs else "—"
    rows.append("| %s | %s | %s | %s | %s | %s |" % (sid, files, title, code, short(obs, 3), short(wit, 2)))
print("| seed | files | change | exit | failed obligations (deductive engines) | witness classes with a replayed failing input |")
print("|---|---|---|---|---|---|")
print("\n".join(rows))
