"""tools/seedtable_merge.py : refresh the table of DESIGN I.9 in place. Rows of seeds that have a log of tools/seedrun.sh under /root/scratch are
regenerated (same format as tools/seedtable.py); rows of seeds without a log keep the row of the last full matrix; new seeds are appended in order."""
import json, os, re, subprocess, sys

V = os.path.dirname(os.path.dirname(os.path.abspath(__file__)))
new = {}
out = subprocess.run([sys.executable, os.path.join(V, "tools", "seedtable.py")], stdout=subprocess.PIPE).stdout.decode()
for ln in out.splitlines():
    m = re.match(r"\| (C\d\d\w*_\d) \|", ln)
    if m and "| ? |" not in ln:
        new[m.group(1)] = ln
p = os.path.join(V, "DESIGN.md")
lines = open(p).read().split("\n")
idx = [i for i, l in enumerate(lines) if re.match(r"\| C\d\d\w*_\d \|", l)]
old = {re.match(r"\| (C\d\d\w*_\d) \|", lines[i]).group(1): lines[i] for i in idx}
old.update(new)
rows = [old[k] for k in sorted(old)]
lines[idx[0]:idx[-1] + 1] = rows
open(p, "w").write("\n".join(lines))
print("rows: %d, refreshed from logs: %d" % (len(rows), len(new)))
