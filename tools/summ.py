"""summarise a section document read from stdin (developer helper)"""
import json,sys
d=json.loads(sys.stdin.readlines()[-1])
from collections import Counter
print(d['errors'][:3], Counter(o['status'] for o in d['obligations']), Counter(o.get('backend') for o in d['obligations']))
seen=set()
for o in d['obligations']:
    if o['status']!='discharged':
        k=(o['name'], (o.get('detail') or '')[:80])
        if k in seen: continue
        seen.add(k)
        print('  ',o['name'], o['status'], (o.get('detail') or '')[:300].replace(chr(10),' '))
        if '-v' in sys.argv: print('      goal:', (o.get('goal') or '')[:200].replace(chr(10),' ')); print('      path:', [c.replace(chr(10),' ')[:100] for c in (o.get('counterexample') or {}).get('path_conditions',[])][-4:])
    if len(seen)>8: break
print(d.get('extra',{}).get('per_function'))
