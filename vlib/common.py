"""Shared plumbing for the /verif checks: paths, section results, evidence, known findings.

Two interpreters are used (see DESIGN.md section 2):
  * PY_VT  (python3-vt, 3.11: z3-solver, cvc5, lark)  -- runs PyVC and the orchestrator; only *reads* the repo as text.
  * PY_REPO (/venv/bin/python, 3.12: numpy, sympy, antlr4, networkx) -- runs the real code (replay, witnesses, ATN cross-check).
Every engine is a subprocess that prints one JSON "section" document on stdout.
"""
import hashlib
import json
import os
import subprocess
import sys
import time

VERIF = os.path.dirname(os.path.dirname(os.path.abspath(__file__)))
REPO = os.environ.get("VERIF_REPO", "/repo")          # scratch worktrees of the repo can be checked with VERIF_REPO=<dir>
PKG = os.path.join(REPO, "blackbird_python", "blackbird")
PY_VT = os.environ.get("VERIF_PY_VT", "python3-vt")
PY_REPO = os.environ.get("VERIF_PY_REPO", "/venv/bin/python")
GUARD = "XANADUAI_BLACKBIRD_VERIF"

EXIT_OK, EXIT_VIOLATION, EXIT_UNDECIDED, EXIT_ENGINE = 0, 1, 2, 3

# obligation statuses
DISCHARGED = "discharged"      # negation unsat / closed obligation evaluates to true
FAILED = "failed"              # negation sat (counter-model) / closed obligation evaluates to false
UNDECIDED = "undecided"        # unknown / timeout / depends on havoc
UNREACHABLE = "unreachable"    # function left the supported subset: verdict rests on the bounded layer
ERROR = "error"                # engine defect


def seed():
    try:
        return int(os.environ.get("VERIF_SEED", "0"))
    except ValueError:
        return 0


def sha256_file(path):
    h = hashlib.sha256()
    with open(path, "rb") as f:
        h.update(f.read())
    return h.hexdigest()


def repo_env(extra=None):
    env = dict(os.environ)
    env["PYTHONPATH"] = VERIF + os.pathsep + os.path.join(REPO, "blackbird_python")
    env["VERIF_REPO"] = REPO
    env[GUARD] = "1"
    env.setdefault("PYTHONHASHSEED", "0")
    env["PYTHONDONTWRITEBYTECODE"] = "1"
    if extra:
        env.update(extra)
    return env


def vt_env(extra=None):
    env = dict(os.environ)
    env["PYTHONPATH"] = VERIF
    env["VERIF_REPO"] = REPO
    env["PYTHONDONTWRITEBYTECODE"] = "1"
    if extra:
        env.update(extra)
    return env


def run_section(kind, argv, timeout, env):
    """Run an engine subprocess; returns its JSON section or an error section."""
    t0 = time.time()
    try:
        p = subprocess.run(argv, cwd=VERIF, env=env, stdout=subprocess.PIPE, stderr=subprocess.PIPE, timeout=timeout)
    except subprocess.TimeoutExpired:
        return {"engine": kind, "argv": argv, "errors": ["timeout after %ss: %s" % (timeout, " ".join(argv))], "obligations": [], "bounded": [],
                "wall_s": time.time() - t0}
    out = p.stdout.decode("utf-8", "replace")
    err = p.stderr.decode("utf-8", "replace")
    doc = None
    # the section is the last line that parses as a JSON object
    for line in reversed(out.strip().splitlines()):
        line = line.strip()
        if line.startswith("{"):
            try:
                doc = json.loads(line)
                break
            except ValueError:
                continue
    if doc is None:
        return {"engine": kind, "argv": argv, "errors": ["engine produced no section (exit %d): %s" % (p.returncode, (err or out)[-2000:])],
                "obligations": [], "bounded": [], "wall_s": time.time() - t0}
    doc.setdefault("engine", kind)
    doc.setdefault("obligations", [])
    doc.setdefault("bounded", [])
    doc.setdefault("errors", [])
    doc["argv"] = argv
    doc["wall_s"] = time.time() - t0
    if p.returncode not in (0,):
        doc["errors"].append("engine exit code %d: %s" % (p.returncode, err[-1500:]))
    return doc


def emit_section(doc):
    """Called by engines: print the section as the last stdout line."""
    sys.stdout.write("\n" + json.dumps(doc, default=str) + "\n")
    sys.stdout.flush()


def load_known_findings():
    path = os.path.join(VERIF, "known_findings.json")
    if not os.path.exists(path):
        return {"findings": [], "fixed": []}
    with open(path) as f:
        return json.load(f)


def write_json(path, doc):
    os.makedirs(os.path.dirname(path), exist_ok=True)
    tmp = path + ".tmp%d" % os.getpid()
    with open(tmp, "w") as f:
        json.dump(doc, f, indent=1, default=str, sort_keys=False)
        f.write("\n")
    os.replace(tmp, path)
