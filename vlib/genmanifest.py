"""writes /verif/MANIFEST.json from the registry (vlib/props.py); run after changing the registry"""
import json
import os

from . import common as C
from . import props as P

BASELINE_CMD = "cd /repo && /venv/bin/python -m pytest -ra -q -p no:cacheprovider --timeout=900 --continue-on-collection-errors"

LEVEL_TEXT = {
    "proof": "every obligation generated from the current source of the functions under contract (real function == sidecar spec function, frame/ownership clauses, "
             "closed artefact facts, Lean lemmas) is discharged on every run by z3 / closed evaluation / Lean; the property is the stated lemma over those contracts. "
             "Library behaviour enters only as listed assumed contracts. A bounded witness layer cross-checks the model on the real code and is never counted as proved.",
    "other": "part of the property is decided by discharged contract obligations / complete closed obligations, the rest by a labelled bounded stand-in or listed "
             "assumptions (see explanation in the evidence)",
}
TECHNIQUE = {
    "pyvc": "contracts: own ast->z3 VC generator (relational real-vs-spec), discharged by z3",
    "frames": "ownership/frame/order obligations by provenance of symbolic terms + z3",
    "atnk": "closed obligations on the shipped ATN/g4 artefacts by automata construction",
    "lean": "Lean 4 lemmas",
    "witness": "bounded differential replay on the real code (stand-in, not proof)",
}


def main():
    checks = []
    for pid in sorted(P.PROPS):
        reg = P.PROPS[pid]
        kinds = [s[0] for s in reg["sections"]]
        checks.append({
            "property_id": pid,
            "quick_cmd": "./check %s --tier quick" % pid,
            "thorough_cmd": "./check %s --tier thorough" % pid,
            "evidence_file": "/verif/evidence/%s.json" % pid,
            "replay_cmd_template": "./check %s --replay {path}" % pid,
            "engine": "+".join(kinds),
            "level_claimed": {"category": reg["level"], "text": (reg.get("explanation") + " -- " if reg.get("explanation") else "") + LEVEL_TEXT[reg["level"]],
                              "design_ref": "DESIGN.md section 3 (%s), section 2" % pid},
            "level_note": "trusted base: assumed contracts of NumPy/SymPy/antlr4/networkx/CPython (A-* ids, listed per run in the evidence), PyVC's semantics of the Python "
                          "subset, z3, Lean kernel + Mathlib; floats read as reals (A-float). Known open findings: known_findings.json",
            "technique": "; ".join(TECHNIQUE[k] for k in kinds),
        })
    doc = {
        "version": 1,
        "setup_cmd": "cd /verif && python3-vt -m compileall -q vlib pyvc atnk replay contracts >/dev/null; ./check --selftest",
        "hooks": {"guard": C.GUARD, "enable": "not used: contracts are sidecar files, no source hooks in /repo", "baseline_off_cmd": BASELINE_CMD,
                  "source_commits": [], "add_only": True},
        "engines": [
            {"name": "pyvc", "path": "pyvc/", "serves_properties": [p for p in sorted(P.PROPS) if any(s[0] in ("pyvc", "frames") for s in P.PROPS[p]["sections"])],
             "kind_free_text": "contract-based deductive verification: VC generation from the Python AST of the real functions against sidecar contracts, z3"},
            {"name": "atnk", "path": "atnk/", "serves_properties": [p for p in sorted(P.PROPS) if any(s[0] == "atnk" for s in P.PROPS[p]["sections"])],
             "kind_free_text": "closed obligations over generated artefacts (ATN, g4, tokens), complete automata decision procedures"},
            {"name": "lean", "path": "lean/", "serves_properties": [p for p in sorted(P.PROPS) if any(s[0] == "lean" for s in P.PROPS[p]["sections"])],
             "kind_free_text": "Lean 4 + Mathlib lemmas (walk/fold induction, graph lemmas, row-major layout)"},
            {"name": "witness", "path": "replay/", "serves_properties": sorted(P.PROPS), "kind_free_text": "bounded differential replay on the real code"},
        ],
        "checks": checks,
        "notes": "exit codes: 0 held, 1 violation (VIOLATION line), 2 undecided, 3 engine error. VERIF_REPO=<dir> checks another tree (used for seeded changes).",
        "not_applicable": [],
    }
    C.write_json(os.path.join(C.VERIF, "MANIFEST.json"), doc)


if __name__ == "__main__":
    main()
