"""Lean section: python3-vt -m vlib.leanrun --prop C16 --tier quick|thorough --files Graph.lean,Walk.lean   (cwd /verif)

For every file of /verif/lean named in --files:
  * textual scan of the committed file for proof holes / escape hatches (FORBIDDEN below) -> `failed`;
  * quick tier: if lean/build/<sha256>.ok exists (written by an earlier successful run with the same `lean --version`)
    the theorems are reported `discharged` with backend "lean(cached)";
  * otherwise `lean` is run on a copy of the file (in lean/build/, never the committed file) to which one
    `#print axioms <name>` line per theorem has been appended; the file is accepted iff exit code 0, no error message and
    no `sorry` warning; every theorem may depend on propext / Classical.choice / Quot.sound only;
  * thorough tier: the same run also writes the .olean (`lean -o`) and `leanchecker <module>` replays the file's
    declarations through the kernel on top of its imports (LEAN_PATH = the work directory; Mathlib is found through the
    toolchain's own lib directory, no LEAN_PATH needed for it). VERIF_LEAN_FRESH=1 makes that `leanchecker --fresh`,
    which also replays every imported declaration into an empty environment (about 2 min 15 s per file).
One obligation per theorem/lemma of the file: lean/<File>/<theorem>.

Statuses: proof rejected by lean, forbidden construct, unexpected axiom -> failed; timeout or axioms of a theorem not
obtainable -> undecided; lean cannot be started / crashes -> error (+ entry in `errors`).
"""
import argparse
import json
import os
import re
import shutil
import subprocess
import sys
import time

from . import common as C

LEAN_DIR = os.path.join(C.VERIF, "lean")
BUILD = os.path.join(LEAN_DIR, "build")
LEAN = os.environ.get("VERIF_LEAN", "lean")
LEANCHECKER = os.environ.get("VERIF_LEANCHECKER", "leanchecker")
LEAN_TIMEOUT = 1500
FRESH = os.environ.get("VERIF_LEAN_FRESH", "") not in ("", "0")   # thorough tier: `leanchecker --fresh` (about 2 min 15 s per file)
ALLOWED_AXIOMS = ("propext", "Classical.choice", "Quot.sound")

# scanned on the raw text of the committed file (comments included: the files do not need these words anywhere)
FORBIDDEN = [
    ("sorry", r"\bsorry\b"),
    ("axiom", r"\baxiom\s"),
    ("admit", r"\badmit\b"),
    ("native_decide", r"\bnative_decide\b"),
    ("unsafe", r"\bunsafe\b"),
    ("implemented_by", r"\bimplemented_by\b"),
    # further ways around the kernel
    ("extern", r"@\[\s*extern\b"),
    ("ofReduceBool", r"\bofReduceBool\b|\breduceBool\b|\btrustCompiler\b"),
    ("skipKernelTC", r"\bskipKernelTC\b"),
    ("csimp", r"@\[\s*csimp\b"),
]

THEOREM_RE = re.compile(
    r"^[ \t]*(?:@\[[^\]\n]*\][ \t\n]*)*(?:(?:private|protected|nonrec)[ \t]+)*(theorem|lemma)[ \t]+([^\s:({\[⦃]+)", re.M)
NS_RE = re.compile(r"^[ \t]*(?:(?:noncomputable|public|private)[ \t]+)*(namespace|section|mutual|end)\b[ \t]*([^\s]*)", re.M)
MSG_RE = re.compile(r"^(?P<file>[^\n:]+):(?P<line>\d+):(?P<col>\d+): (?P<sev>error|warning|info)\b", re.M)
AXIOMS_RE = re.compile(r"'([^\n]+?)' depends on axioms: \[(.*?)\]", re.S)          # names may end in primes: 'foo'' depends on ...
NOAXIOMS_RE = re.compile(r"'([^\n]+?)' does not depend on any axioms")


def lean_version():
    try:
        p = subprocess.run([LEAN, "--version"], stdout=subprocess.PIPE, stderr=subprocess.STDOUT, timeout=60)
        return p.stdout.decode("utf-8", "replace").strip()
    except (OSError, subprocess.TimeoutExpired) as e:
        return "unavailable: %s" % e


def strip_comments(text):
    """Blank out block comments (nested) and line comments, keeping offsets and newlines; used for *parsing names only*
    (the forbidden-word scan runs on the raw text)."""
    out = list(text)
    i, n, depth = 0, len(text), 0
    while i < n:
        two = text[i:i + 2]
        if depth == 0 and two == "--":
            while i < n and text[i] != "\n":
                out[i] = " "
                i += 1
            continue
        if two == "/-":
            depth += 1
            out[i] = out[i + 1] = " "
            i += 2
            continue
        if depth and two == "-/":
            depth -= 1
            out[i] = out[i + 1] = " "
            i += 2
            continue
        if depth and text[i] != "\n":
            out[i] = " "
        i += 1
    return "".join(out)


def statement_end(code, start):
    """Offset of the `:=` (bracket depth 0) that ends the statement starting at `start`; else the next blank line."""
    depth, i, n = 0, start, len(code)
    opens, closes = "([{⟨⦃", ")]}⟩⦄"
    while i < n:
        ch = code[i]
        if ch in opens:
            depth += 1
        elif ch in closes:
            depth = max(0, depth - 1)
        elif depth == 0 and code.startswith(":=", i):
            return i
        elif depth == 0 and code.startswith("\n\n", i):
            return i
        elif depth == 0 and ch == "\n" and re.match(r"\n[ \t]*\|", code[i:i + 40]):
            return i
        i += 1
    return n


def parse_theorems(text):
    """[(full_name, kind, statement_text, line)] in file order; names qualified by the enclosing namespaces."""
    code = strip_comments(text)
    events = []
    for m in NS_RE.finditer(code):
        events.append((m.start(), "ns", m.group(1), m.group(2)))
    for m in THEOREM_RE.finditer(code):
        events.append((m.start(1), "thm", m.group(1), m.group(2), m.end(2)))
    events.sort(key=lambda e: e[0])
    stack, out = [], []          # stack of (kind, name)
    for ev in events:
        if ev[1] == "ns":
            kw, name = ev[2], ev[3]
            if kw in ("namespace", "section", "mutual"):
                stack.append((kw, name))
            elif stack:
                stack.pop()
            continue
        _, _, kind, name, _ = ev
        pos = ev[0]
        prefix = ".".join(nm for kw, nm in stack if kw == "namespace" and nm)
        full = name[len("_root_."):] if name.startswith("_root_.") else (prefix + "." + name if prefix else name)
        stmt = " ".join(code[pos:statement_end(code, pos)].split())
        out.append((full, kind, stmt, text.count("\n", 0, pos) + 1))
    return out


def scan_forbidden(text):
    hits = []
    for label, rx in FORBIDDEN:
        for m in re.finditer(rx, text):
            hits.append("%s at line %d" % (label, text.count("\n", 0, m.start()) + 1))
            break
    return hits


def parse_axioms(output):
    ax = {}
    for m in NOAXIOMS_RE.finditer(output):
        ax[m.group(1)] = []
    for m in AXIOMS_RE.finditer(output):
        ax[m.group(1)] = [a.strip() for a in m.group(2).replace("\n", " ").split(",") if a.strip()]
    return ax


def read_marker(sha, version):
    path = os.path.join(BUILD, sha + ".ok")
    if not os.path.exists(path):
        return None
    try:
        with open(path) as f:
            mk = json.load(f)
    except (OSError, ValueError):
        return None
    if mk.get("sha256") != sha or mk.get("lean_version") != version:
        return None
    return mk


def run_lean(fname, text, theorems, tier, work):
    """Run lean (and, thorough tier, leanchecker) on a copy of the file with `#print axioms` appended.
    Returns dict(ok, status, detail, axioms, lean_s, checker, checker_s, output)."""
    base = os.path.splitext(os.path.basename(fname))[0]
    mod = "VerifChk_" + re.sub(r"[^A-Za-z0-9_]", "_", base)
    os.makedirs(work, exist_ok=True)
    tmp = os.path.join(work, mod + ".lean")
    n_lines = text.count("\n") + (0 if text.endswith("\n") else 1)
    with open(tmp, "w") as f:
        f.write(text if text.endswith("\n") else text + "\n")
        for full, _, _, _ in theorems:
            f.write("#print axioms %s\n" % full)
    argv = [LEAN]
    olean = os.path.join(work, mod + ".olean")
    if tier == "thorough":
        argv += ["-o", olean]
    argv.append(tmp)
    res = {"ok": False, "status": C.ERROR, "detail": "", "axioms": {}, "lean_s": 0.0, "checker": None, "checker_s": 0.0,
           "argv": " ".join(argv), "output": ""}
    t0 = time.time()
    try:
        p = subprocess.run(argv, cwd=work, stdout=subprocess.PIPE, stderr=subprocess.STDOUT, timeout=LEAN_TIMEOUT)
    except subprocess.TimeoutExpired:
        res.update(lean_s=time.time() - t0, status=C.UNDECIDED, detail="lean timed out after %d s" % LEAN_TIMEOUT)
        return res
    except OSError as e:
        res.update(lean_s=time.time() - t0, status=C.ERROR, detail="cannot run %s: %s" % (LEAN, e))
        return res
    res["lean_s"] = time.time() - t0
    out = p.stdout.decode("utf-8", "replace")
    res["output"] = out[-4000:]
    res["axioms"] = parse_axioms(out)
    msgs = [(int(m.group("line")), m.group("sev"), m.start()) for m in MSG_RE.finditer(out)]
    body_errors = [(ln, pos) for ln, sev, pos in msgs if sev == "error" and ln <= n_lines]
    tail_errors = [(ln, pos) for ln, sev, pos in msgs if sev == "error" and ln > n_lines]
    sorry_warn = re.search(r"declaration uses [`']sorry[`']|\bsorryAx\b", out)

    def excerpt(pos):
        return " ".join(out[pos:pos + 600].split()).replace(tmp, fname)

    if p.returncode < 0 or p.returncode > 1:
        res.update(status=C.ERROR, detail="lean exited with code %d: %s" % (p.returncode, " ".join(out[-600:].split())))
        return res
    if body_errors:
        res.update(status=C.FAILED, detail="rejected by lean (%d error(s)); first: %s" % (len(body_errors), excerpt(body_errors[0][1])))
        return res
    if sorry_warn:
        res.update(status=C.FAILED, detail="lean reports a `sorry`: %s" % excerpt(max(0, sorry_warn.start() - 80)))
        return res
    if tail_errors:
        # only the appended `#print axioms` lines failed (a name the regex got wrong): the file itself is accepted,
        # theorems without an axiom report become undecided below
        res["detail"] = "`#print axioms` failed for some names: %s" % excerpt(tail_errors[0][1])
    elif p.returncode != 0 or re.search(r"\berror\b", out):
        res.update(status=C.FAILED, detail="lean exit code %d / error in output: %s" % (p.returncode, " ".join(out[:600].split())))
        return res
    res["ok"] = True
    res["status"] = C.DISCHARGED
    if tier == "thorough" and not tail_errors:
        env = dict(os.environ)
        env["LEAN_PATH"] = work
        t1 = time.time()
        try:
            q = subprocess.run([LEANCHECKER, "-v"] + (["--fresh"] if FRESH else []) + [mod], cwd=work, env=env, stdout=subprocess.PIPE, stderr=subprocess.STDOUT, timeout=LEAN_TIMEOUT)
            cout = q.stdout.decode("utf-8", "replace")
            res["checker_s"] = time.time() - t1
            if q.returncode == 0 and ("replaying " + mod) in cout and "found a problem" not in cout:
                res["checker"] = "accepted(--fresh)" if FRESH else "accepted"
            else:
                res["checker"] = "rejected"
                res.update(ok=False, status=C.FAILED, detail="leanchecker rejected the compiled file (exit %d): %s" % (q.returncode, " ".join(cout[-600:].split())))
        except subprocess.TimeoutExpired:
            res["checker_s"] = time.time() - t1
            res["checker"] = "timeout"
            res.update(ok=False, status=C.UNDECIDED, detail="leanchecker timed out after %d s" % LEAN_TIMEOUT)
        except OSError as e:
            res["checker"] = "unavailable"
            res.update(ok=False, status=C.ERROR, detail="cannot run %s: %s" % (LEANCHECKER, e))
    return res


def main(argv=None):
    ap = argparse.ArgumentParser(prog="vlib.leanrun")
    ap.add_argument("--prop", required=True)
    ap.add_argument("--tier", default="quick", choices=["quick", "thorough"])
    ap.add_argument("--files", required=True)
    a = ap.parse_args(argv)
    t_all = time.time()
    doc = {"engine": "lean", "obligations": [], "bounded": [], "functions": [], "assumptions": [], "trusted": [], "notes": [],
           "errors": [], "extra": {}}
    version = lean_version()
    per_file, lean_total, checker_total = {}, 0.0, 0.0
    axioms_seen = []
    os.makedirs(BUILD, exist_ok=True)
    for fname in [f.strip() for f in a.files.split(",") if f.strip()]:
        path = os.path.join(LEAN_DIR, fname)
        base = os.path.splitext(os.path.basename(fname))[0]
        if not os.path.isfile(path):
            doc["errors"].append("lean file not found: %s" % path)
            continue
        with open(path, encoding="utf-8") as f:
            text = f.read()
        sha = C.sha256_file(path)
        theorems = parse_theorems(text)
        if not theorems:
            doc["errors"].append("no theorem/lemma found in %s" % path)
            continue
        hits = scan_forbidden(text)
        marker = read_marker(sha, version) if a.tier == "quick" else None
        info = {"sha256": sha, "theorems": len(theorems), "forbidden": hits}
        backend, file_time = "lean", 0.0
        if marker is not None:
            status, backend = C.DISCHARGED, "lean(cached)"
            detail = "cached: accepted by lean at %s" % marker.get("time")
            axioms = marker.get("axioms", {})
            info.update(cached=True, accepted_at=marker.get("time"), accepted_tier=marker.get("tier"), leanchecker=marker.get("leanchecker"))
        else:
            work = os.path.join(BUILD, "work-%d-%s" % (os.getpid(), base))
            try:
                r = run_lean(fname, text, theorems, a.tier, work)
            finally:
                shutil.rmtree(work, ignore_errors=True)
            status, detail, axioms = r["status"], r["detail"], r["axioms"]
            file_time = r["lean_s"] + r["checker_s"]
            lean_total += r["lean_s"]
            checker_total += r["checker_s"]
            info.update(cached=False, lean_s=round(r["lean_s"], 2), leanchecker=r["checker"], leanchecker_s=round(r["checker_s"], 2),
                        cmd=r["argv"])
            if status == C.ERROR:
                doc["errors"].append("%s: %s" % (fname, detail))
            if status != C.DISCHARGED:
                info["output_tail"] = r["output"][-1500:]
            if r["ok"] and not hits:
                bad = [t[0] for t in theorems if t[0] not in axioms or any(x not in ALLOWED_AXIOMS for x in axioms[t[0]])]
                if not bad:
                    C.write_json(os.path.join(BUILD, sha + ".ok"), {
                        "file": fname, "sha256": sha, "time": time.strftime("%Y-%m-%dT%H:%M:%SZ", time.gmtime()), "tier": a.tier,
                        "lean_version": version, "lean_s": round(r["lean_s"], 2), "leanchecker": r["checker"],
                        "theorems": [t[0] for t in theorems], "axioms": axioms})
        per_file[fname] = info
        for full, kind, stmt, line in theorems:
            ob = {"name": "lean/%s/%s" % (base, full), "status": status, "backend": backend,
                  "time_s": round(file_time / len(theorems), 3), "goal": stmt[:300], "source": "lean/%s:%d" % (fname, line)}
            d = [detail] if detail else []
            if status == C.DISCHARGED:
                ax = axioms.get(full)
                if ax is None:
                    ob["status"] = C.UNDECIDED
                    d.append("file accepted by lean but `#print axioms %s` gave no answer" % full)
                else:
                    ob["axioms"] = ax
                    extra_ax = [x for x in ax if x not in ALLOWED_AXIOMS]
                    for x in ax:
                        if x not in axioms_seen:
                            axioms_seen.append(x)
                    if extra_ax:
                        ob["status"] = C.FAILED
                        d.append("depends on axioms outside {%s}: %s" % (", ".join(ALLOWED_AXIOMS), ", ".join(extra_ax)))
                    elif marker is None:
                        d.append("accepted by lean" + (" and leanchecker" if str(info.get("leanchecker")).startswith("accepted") else "") +
                                 "; axioms: %s" % (", ".join(ax) or "none"))
            if hits:
                ob["status"] = C.FAILED
                d.insert(0, "forbidden construct in %s: %s" % (fname, "; ".join(hits)))
            ob["detail"] = " | ".join(d)
            doc["obligations"].append(ob)
    doc["trusted"].append("lean-kernel: %s" % version)
    doc["trusted"].append("mathlib: precompiled Mathlib/Batteries .olean files found through the toolchain's lib directory (imported, not re-checked)")
    for x in axioms_seen:
        doc["trusted"].append("lean-axiom: %s" % x)
    if a.tier == "thorough":
        doc["notes"].append("thorough: each file compiled with `lean -o` and its declarations replayed through the kernel by "
                            "`leanchecker <module>` (LEAN_PATH = work directory); " +
                            ("`--fresh`: every imported Mathlib/Batteries/core declaration is replayed into an empty environment as well" if FRESH else
                             "`leanchecker --fresh` (replays all imports too, about 2 min 15 s per file) only with VERIF_LEAN_FRESH=1"))
    else:
        doc["notes"].append("quick: a file whose sha256 has a marker lean/build/<sha>.ok (same lean version) is not re-run; leanchecker runs in the thorough tier only")
    doc["notes"].append("time_s of an obligation is the file's lean(+leanchecker) wall time divided by its number of theorems")
    doc["extra"] = {"lean_wall_s": round(lean_total, 2), "leanchecker_wall_s": round(checker_total, 2), "wall_s": round(time.time() - t_all, 2),
                    "lean_version": version, "tier": a.tier, "prop": a.prop, "files": per_file}
    C.emit_section(doc)
    return 0


if __name__ == "__main__":
    sys.exit(main())
