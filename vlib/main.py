"""./check <Cxx> [--tier quick|thorough] | ./check <Cxx> --replay <file> | ./check --selftest | ./check --list

Orchestrator: runs the engine sections registered for a property (vlib/props.py), merges their obligation results, applies
known findings, turns failed obligations into replayed violations, writes evidence/<id>.json and sets the exit code:
0 held / 1 violation / 2 undecided / 3 engine error (2 and 3 never print a VIOLATION line).
"""
import argparse
import concurrent.futures
import json
import os
import re
import sys
import time

from . import common as C
from . import props as P


def slug(s):
    return re.sub(r"[^A-Za-z0-9_.-]+", "_", s)[:120]


def section_argv(prop, sec, tier, sd):
    kind, opts = sec
    opts = dict(opts)
    if kind == "pyvc":
        argv = [C.PY_VT, "-m", "pyvc.run", "--prop", prop, "--tier", tier]
        if opts.get("functions"):
            argv += ["--functions", ",".join(opts["functions"])]
        return kind, argv, C.vt_env({"VERIF_CANARY": "1"} if tier == "thorough" else None), opts.get("timeout", 900 if tier == "quick" else 3000)
    if kind == "frames":
        argv = [C.PY_VT, "-m", "pyvc.frames_run", "--prop", prop, "--tier", tier]
        return kind, argv, C.vt_env(), opts.get("timeout", 600)
    if kind == "atnk":
        argv = [C.PY_REPO, "-m", "atnk.run", "--prop", prop, "--groups", ",".join(opts["groups"]), "--tier", tier]
        return kind, argv, C.repo_env(), opts.get("timeout", 900 if tier == "quick" else 3000)
    if kind == "witness":
        n = opts.get("n_quick", 150) if tier == "quick" else opts.get("n_thorough", 3000)
        argv = [C.PY_REPO, "-m", "replay.run", "--prop", prop, "--n", str(n), "--seed", str(sd), "--tier", tier]
        return kind, argv, C.repo_env(), opts.get("timeout", 900 if tier == "quick" else 6000)
    if kind == "lean":
        argv = [C.PY_VT, "-m", "vlib.leanrun", "--prop", prop, "--tier", tier, "--files", ",".join(opts["files"])]
        return kind, argv, C.vt_env(), opts.get("timeout", 1800)
    if kind == "selfmut":
        argv = [C.PY_VT, "-m", "vlib.selfmut", "--prop", prop, "--tier", tier]
        return kind, argv, C.vt_env(), opts.get("timeout", 6000)
    raise SystemExit("unknown section kind %r" % kind)


def run_sections(prop, tier, sd):
    secs = [s for s in P.PROPS[prop]["sections"] if tier == "thorough" or not s[1].get("thorough_only")]
    if tier == "thorough" and not os.environ.get("VERIF_SELFMUT"):
        secs = secs + [("selfmut", {})]
    jobs = [section_argv(prop, s, tier, sd) for s in secs]
    out = []
    with concurrent.futures.ThreadPoolExecutor(max_workers=max(1, len(jobs))) as ex:
        futs = [ex.submit(C.run_section, kind, argv, timeout, env) for kind, argv, env, timeout in jobs]
        for f in futs:
            out.append(f.result())
    return out


def finding_matches(fd, prop, record):
    """record: a failed obligation or a bounded failure. A finding matches by obligation name and, when it carries one,
    by the signature (input class) -- so that a different violation of the same clause is still reported."""
    if fd.get("status", "open") not in ("open",):
        return False
    if fd.get("property") != prop and not str(record.get("name", "")).startswith("bounded/"):
        return False        # (a bounded input class is the same defect whichever property's check meets it, e.g. in degraded mode)
    m = fd.get("match", {})
    if "obligation" in m and not re.fullmatch(m["obligation"], record.get("name", "")):
        return False
    if "class" in m and not re.fullmatch(m["class"], str(record.get("class", ""))):
        return False
    return True


_replay_memo = {}


def _is_known_input(prop, b, fl):
    """a witness failure that is one of the listed open findings: never a witness for some other obligation"""
    rec = {"name": "bounded/%s/%s" % (str(b.get("name", "")).replace("+degraded", ""), fl.get("class", "")), "class": fl.get("class")}
    return any(finding_matches(fd, prop, rec) for fd in C.load_known_findings().get("findings", []))


def try_replay(prop, ob, sections, sd, tier):
    """Find a concrete failing input for a failed obligation: first among the witness failures of this run
    (same tags), then by an extended search in the hinted family. Inputs of listed known findings are never attached."""
    fams = ob.get("witness_families") or []
    ce = ob.get("counterexample") or {}
    if isinstance(ce, dict) and isinstance(ce.get("string"), str):
        # a distinguishing string of a lexer obligation: run the shipped lexer and the g4 reference tokeniser on it
        import subprocess
        for text in (ce["string"], ce["string"] + " ", " " + ce["string"] + "\n"):
            cj = {"family": "lexer_tokens", "class": "lexer/distinguishing-string", "input": {"text": text}}
            try:
                pr = subprocess.run([C.PY_REPO, "-m", "replay.run", "--prop", prop, "--case-json", json.dumps(cj)], cwd=C.VERIF, env=C.repo_env(),
                                    stdout=subprocess.PIPE, stderr=subprocess.PIPE, timeout=120)
                out = json.loads(pr.stdout.decode().strip().splitlines()[-1])
            except Exception:      # noqa
                break
            if out.get("failed"):
                return {"family": "lexer_tokens", "class": cj["class"], "input": cj["input"], "expected": out.get("expected"), "actual": out.get("actual"),
                        "repro": "cd /verif && ./check %s --replay <this file>" % prop}
    for sec in sections:
        if sec.get("engine") != "witness":
            continue
        for b in sec.get("bounded", []):
            for fl in b.get("failures", []):
                if (not fams or fl.get("family") in fams) and not _is_known_input(prop, b, fl):
                    return fl
    if fams:
        key = tuple(sorted(fams))
        if key not in _replay_memo:          # one extended search per set of families, however many obligations failed
            argv = [C.PY_REPO, "-m", "replay.run", "--prop", prop, "--families", ",".join(fams), "--n", str(1200 * len(fams)), "--seed", str(sd + 7), "--tier", tier]
            doc = C.run_section("witness", argv, 900, C.repo_env())
            found = None
            for b in doc.get("bounded", []):
                for fl in b.get("failures", []):
                    if not _is_known_input(prop, b, fl):
                        found = found or fl
            _replay_memo[key] = found
        if _replay_memo[key] is not None:
            return _replay_memo[key]
    # no input from the hinted families: a failing input of another family met in this same run is attached (marked as such)
    for sec in sections:
        if sec.get("engine") != "witness":
            continue
        for b in sec.get("bounded", []):
            if str(b.get("name", "")).startswith("axiom_sampling"):
                continue
            for fl in b.get("failures", []):
                if _is_known_input(prop, b, fl):
                    continue
                fl2 = dict(fl)
                fl2["note"] = "failing input of another witness family in the same run (not derived from this obligation's counter-model)"
                return fl2
    return None


def main(argv=None):
    ap = argparse.ArgumentParser(prog="check")
    ap.add_argument("prop", nargs="?")
    ap.add_argument("--tier", default=os.environ.get("VERIF_TIER", "quick"), choices=["quick", "thorough"])
    ap.add_argument("--replay")
    ap.add_argument("--selftest", action="store_true")
    ap.add_argument("--list", action="store_true")
    ap.add_argument("--no-evidence", action="store_true", help="do not rewrite evidence/<id>.json (used by the mutation self-test on scratch trees)")
    a = ap.parse_args(argv)
    if a.list:
        for k, v in sorted(P.PROPS.items()):
            print(k, v["level"], [s[0] for s in v["sections"]])
        return 0
    if a.selftest:
        from . import selftest
        return selftest.main()
    if not a.prop or a.prop not in P.PROPS:
        print("unknown property %r; known: %s" % (a.prop, " ".join(sorted(P.PROPS))))
        return C.EXIT_ENGINE
    prop = a.prop
    if a.replay:
        import subprocess
        p = subprocess.run([C.PY_REPO, "-m", "replay.run", "--prop", prop, "--replay-file", os.path.abspath(a.replay)], cwd=C.VERIF, env=C.repo_env())
        return p.returncode
    sd = C.seed()
    t0 = time.time()
    sections = run_sections(prop, a.tier, sd)
    kf = C.load_known_findings()

    errors, obligations, bounded = [], [], []
    for sec in sections:
        for e in sec.get("errors", []):
            errors.append("%s: %s" % (sec.get("engine"), e))
        for ob in sec.get("obligations", []):
            ob.setdefault("engine", sec.get("engine"))
            obligations.append(ob)
        for b in sec.get("bounded", []):
            b.setdefault("engine", sec.get("engine"))
            bounded.append(b)

    # degradation instead of blindness (DESIGN 2.9): a function that left the verifier's subset is covered by a deeper run of its witness families
    fams = sorted({f for ob in obligations if ob["status"] == C.UNREACHABLE for f in (ob.get("witness_families") or [])})
    if fams:
        argv = [C.PY_REPO, "-m", "replay.run", "--prop", prop, "--families", ",".join(fams), "--n", str(1500 * len(fams)), "--seed", str(sd + 1), "--tier", a.tier]
        extra = C.run_section("witness", argv, 1500, C.repo_env())
        extra["engine"] = "witness"
        sections.append(extra)
        for e in extra.get("errors", []):
            errors.append("witness(degraded): %s" % e)
        for b in extra.get("bounded", []):
            b["engine"] = "witness"
            b["name"] = b.get("name", "") + "+degraded"
            bounded.append(b)

    n_total = len(obligations)
    by_status = {}
    for ob in obligations:
        by_status[ob["status"]] = by_status.get(ob["status"], 0) + 1
    failed = [ob for ob in obligations if ob["status"] == C.FAILED]
    undec = [ob for ob in obligations if ob["status"] == C.UNDECIDED]
    unreach = [ob for ob in obligations if ob["status"] == C.UNREACHABLE]
    errs = [ob for ob in obligations if ob["status"] == C.ERROR]
    for ob in errs:
        errors.append("obligation %s: %s" % (ob["name"], ob.get("detail", "")))

    lines, violations, known_hit = [], 0, []
    os.makedirs(os.path.join(C.VERIF, "out", "replay"), exist_ok=True)

    def report(record, kind, failing_input):
        nonlocal violations
        for fd in kf.get("findings", []):
            if finding_matches(fd, prop, record):
                known_hit.append(fd["id"])
                lines.append("KNOWN-FINDING: property=%s %s [%s]" % (prop, fd["what"], fd["id"]))
                return
        violations += 1
        path = os.path.join(C.VERIF, "out", "replay", "%s-%s.json" % (prop, slug(record.get("name", kind))))
        doc = {"property": prop, "kind": kind, "obligation": record.get("name"), "engine": record.get("engine"),
               "verifier_output": record.get("detail"), "counterexample": record.get("counterexample"),
               "failing_input": failing_input, "repo": C.REPO, "tier": a.tier, "seed": sd,
               "how_to_replay": "./check %s --replay %s" % (prop, os.path.relpath(path, C.VERIF))}
        C.write_json(path, doc)
        tail = "" if failing_input else " no-failing-input-found"
        ln = "VIOLATION property=%s replay=%s%s" % (prop, path, tail)
        if ln not in lines:
            lines.append(ln)

    # every listed open finding is replayed on every run: still failing -> KNOWN-FINDING line; repaired -> stale entry (no line)
    import subprocess
    stale = []
    for fd in kf.get("findings", []):
        if fd.get("property") != prop or fd.get("status", "open") != "open" or not fd.get("replay"):
            continue
        try:
            pr = subprocess.run([C.PY_REPO, "-m", "replay.run", "--prop", prop, "--case-json", json.dumps(fd["replay"])], cwd=C.VERIF, env=C.repo_env(),
                                stdout=subprocess.PIPE, stderr=subprocess.PIPE, timeout=300)
            out = json.loads(pr.stdout.decode().strip().splitlines()[-1])
        except Exception as e:      # noqa
            errors.append("replay of known finding %s crashed: %s" % (fd["id"], e))
            continue
        if out.get("failed"):
            known_hit.append(fd["id"])
            lines.append("KNOWN-FINDING: property=%s %s [%s]" % (prop, fd["what"], fd["id"]))
        else:
            stale.append(fd["id"])
            fd["status"] = "stale"       # in memory only: the entry no longer suppresses anything in this run
    seen_known = set()
    for ob in failed:
        fl = None
        matched = any(finding_matches(fd, prop, ob) for fd in kf.get("findings", []))
        if not matched:
            fl = try_replay(prop, ob, sections, sd, a.tier)
        report(ob, "obligation", fl)
    for b in bounded:
        if str(b.get("name", "")).startswith("axiom_sampling"):
            for fl in b.get("failures", [])[:5]:
                errors.append("assumed contract refuted by the real library (%s): expected %s, got %s" % (fl.get("class"), fl.get("expected"), fl.get("actual")))
            continue
        # group the failures of a bounded family by class, report one per class
        seen = set()
        for fl in b.get("failures", []):
            key = (b.get("name"), fl.get("class"))
            if key in seen:
                continue
            seen.add(key)
            rec = {"name": "bounded/%s/%s" % (b.get("name", "").replace("+degraded", ""), fl.get("class", "")), "class": fl.get("class"), "engine": b.get("engine"),
                   "detail": "real code disagrees with the property oracle on a concrete input (bounded layer)"}
            report(rec, "bounded", fl)
    # de-duplicate KNOWN-FINDING lines
    out_lines = []
    for ln in lines:
        if ln.startswith("KNOWN-FINDING"):
            if ln in seen_known:
                continue
            seen_known.add(ln)
        out_lines.append(ln)

    discharged = by_status.get(C.DISCHARGED, 0)
    if n_total == 0 and not errors:
        errors.append("zero obligations generated for %s (vacuity guard)" % prop)

    # exit code
    if violations:
        code = C.EXIT_VIOLATION          # a decided violation is reported even if some other engine section broke (its errors are printed too)
    elif errors:
        code = C.EXIT_ENGINE
    elif undec or unreach:
        # a function that left the verifier's subset is decided by nobody: the bounded stand-in ran deeper and found nothing, which is not "held"
        code = C.EXIT_UNDECIDED
    else:
        code = C.EXIT_OK
    if code in (C.EXIT_ENGINE, C.EXIT_UNDECIDED):
        out_lines = [ln for ln in out_lines if not ln.startswith("VIOLATION")] if code == C.EXIT_ENGINE and not violations else out_lines

    if not a.no_evidence and C.REPO == "/repo":
        write_evidence(prop, a.tier, sd, sections, obligations, bounded, by_status, failed, undec, unreach, errors, violations, known_hit, time.time() - t0)

    print("== %s (%s) tier=%s seed=%d repo=%s" % (prop, P.PROPS[prop]["title"], a.tier, sd, C.REPO))
    print("   obligations=%d %s   bounded cases=%d   wall=%.1fs" % (n_total, json.dumps(by_status, sort_keys=True),
                                                                  sum(b.get("cases", 0) for b in bounded), time.time() - t0))
    for ob in undec:
        print("UNDECIDED obligation=%s %s" % (ob["name"], str(ob.get("detail", ""))[:300]))
    for ob in unreach[:10]:
        print("UNREACHABLE-BY-VERIFIER obligation=%s %s" % (ob["name"], str(ob.get("detail", ""))[:300]))
    for e in errors:
        print("ENGINE-ERROR %s" % e[:1500])
    for ln in out_lines:
        print(ln)
    print("exit %d" % code)
    return code


def write_evidence(prop, tier, sd, sections, obligations, bounded, by_status, failed, undec, unreach, errors, violations, known_hit, wall):
    reg = P.PROPS[prop]
    level = reg["level"]
    n = len(obligations)
    discharged = by_status.get(C.DISCHARGED, 0)
    if level == "proof" and (unreach or discharged != n):
        # degradation: part of the verdict rests on the bounded layer or is open -> do not present as a proof
        level_now = "other"
    else:
        level_now = level
    by_backend, solver_time = {}, 0.0
    for ob in obligations:
        if ob["status"] == C.DISCHARGED:
            by_backend[ob.get("backend", "?")] = by_backend.get(ob.get("backend", "?"), 0) + 1
        solver_time += float(ob.get("time_s", 0) or 0)
    functions, assumptions, trusted, notes, extra = [], [], [], [], {}
    for sec in sections:
        functions += sec.get("functions", [])
        for x in sec.get("assumptions", []):
            if x not in assumptions:
                assumptions.append(x)
        for x in sec.get("trusted", []):
            if x not in trusted:
                trusted.append(x)
        notes += sec.get("notes", [])
        if sec.get("extra"):
            extra[sec.get("engine", "?")] = sec["extra"]
    samples = []
    for ob in obligations[:4] + obligations[len(obligations) // 2: len(obligations) // 2 + 3]:
        samples.append({k: ob.get(k) for k in ("name", "status", "backend", "goal", "info", "hyps", "detail") if ob.get(k) is not None})
    bsum = []
    cases = distinct = 0
    for b in bounded:
        cases += b.get("cases", 0)
        distinct += b.get("distinct", 0)
        bsum.append({k: b.get(k) for k in ("name", "bound", "cases", "distinct", "rule", "engine") if b.get(k) is not None} |
                    {"failures": len(b.get("failures", [])), "samples": b.get("samples", [])[:3]})
    cov = {
        "obligations": n,
        "discharged": discharged,
        "by_status": by_status,
        "by_backend": by_backend,
        "solver_time_s": round(solver_time, 3),
        "checker_cmd": "./check %s --tier %s  (sections: %s)" % (prop, tier, "; ".join(" ".join(s.get("argv", [])) for s in sections)),
        "trusted_base": trusted,
        "functions_under_contract": functions,
        "bounded": bsum,
        "bounded_note": "bounded cases are a stand-in / cross-check, never counted in 'discharged'",
        "evaluations": max(1, cases + n),
        "distinct_nontrivial": max(distinct + discharged, 0),
        "rule": "obligations: one per (function, path pair, clause) or closed artefact fact; bounded: distinct generated inputs per witness family",
        "samples": samples or [{"note": "no obligations"}],
        "explanation": reg.get("explanation", ""),
        "known_findings_matched": sorted(set(known_hit)),
        "unreachable_by_verifier": [ob["name"] for ob in unreach],
        "undecided": [ob["name"] for ob in undec],
        "failed": [ob["name"] for ob in failed],
        "engine_errors": errors,
        "notes": notes[:50],
        "engine_extra": extra,
        "repo": C.REPO,
    }
    doc = {"property_id": prop, "tier": tier, "seed": sd, "level": level_now, "coverage": cov, "assumptions": assumptions,
           "wall_s": round(wall, 2), "violations": violations}
    C.write_json(os.path.join(C.VERIF, "evidence", "%s.json" % prop), doc)


if __name__ == "__main__":
    sys.exit(main())
