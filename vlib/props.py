"""Registry: which engine sections decide which property (DESIGN section 3), and the level claimed.

Sections: ("pyvc", {}) contracts of the functions tagged with the property; ("frames", {}) ownership/frame/order obligations;
("atnk", {"groups": [...]}) closed obligations on the generated artefacts; ("lean", {"files": [...]}) lemmas;
("witness", {...}) bounded differential layer (never counted as proved).
"""

W = {"n_quick": 160, "n_thorough": 4000}

PROPS = {
    "C01": {"title": "serialise-then-parse round trip", "level": "other",
            "sections": [("frames", {}), ("pyvc", {}), ("atnk", {"groups": ["canon_lex", "lexer_eq", "identity", "parser_eq", "codegen_sim"]}), ("lean", {"files": ["Fold.lean"]}), ("witness", W)],
            "explanation": "contracts on serialize/_value_to_blackbird/numpy_to_blackbird and on the load side (PyVC, discharged by z3) + complete lexical lemmas on the "
                           "shipped lexer DFA; parse-back of serializer output by the shipped parser is a bounded stand-in (witness family roundtrip)"},
    "C02": {"title": "loading yields the program the script denotes", "level": "proof",
            "sections": [("pyvc", {}), ("frames", {}), ("atnk", {"groups": ["identity", "lexer_eq", "parser_eq", "codegen_sim"]}), ("lean", {"files": ["Walk.lean"]}), ("witness", W)]},
    "C03": {"title": "expressions evaluate to their arithmetic value", "level": "proof",
            "sections": [("frames", {}), ("pyvc", {}), ("atnk", {"groups": ["precedence", "literals", "identity", "lexer_eq", "parser_eq", "codegen_sim"]}), ("witness", W)]},
    "C04": {"title": "instantiating a template equals substitution", "level": "other",
            "explanation": "contracts on __call__/_bind_parameters/exitProgram/parameters/is_template and on the load side are discharged (PyVC, z3) and the frame/"
                           "aliasing clauses of __call__ are decided; but the spec of exitArrayvar (parameter positions inside arrays) mirrors the code's "
                           "flatten / re-insert / reshape algorithm -- that this algorithm yields the written layout is the Lean lemma reinsert_split plus assumed "
                           "NumPy contracts, and SUBST(EVAL_sym(e)) = EVAL(e[subst]) rests on A-sympy; the end-to-end equality with the substituted text is a "
                           "bounded stand-in (witness families template_subst, template_subst_x)",
            "sections": [("pyvc", {}), ("frames", {}), ("lean", {"files": ["Fold.lean"]}), ("atnk", {"groups": ["identity", "lexer_eq", "parser_eq", "codegen_sim"]}), ("witness", W)]},
    "C05": {"title": "declared types, array layout and shape", "level": "other",
            "explanation": "contracts on exitExpressionvar / exitArrayvar / the ArrayIdx branch of _expression are discharged (PyVC, z3): casts, ragged-row and shape "
                           "rejection, row-major index; the spec of exitArrayvar mirrors the code's flatten / re-insert / reshape(rows, -1) algorithm, and that it "
                           "produces element (r, c) = c-th entry of the r-th row is carried by the Lean lemmas flatten_get_rowmajor / reinsert_split under the "
                           "assumed NumPy contracts (A-numpy-array); layout end-to-end is a bounded stand-in (witness families decl_types, decl_types_x)",
            "sections": [("pyvc", {}), ("frames", {}), ("lean", {"files": ["Fold.lean"]}), ("atnk", {"groups": ["identity", "lexer_eq", "parser_eq", "codegen_sim"]}), ("witness", W)]},
    "C06": {"title": "a for-loop equals its unrolling", "level": "proof",
            "sections": [("frames", {}), ("pyvc", {}), ("lean", {"files": ["Walk.lean"]}), ("atnk", {"groups": ["identity", "lexer_eq", "parser_eq", "codegen_sim"]}), ("witness", W)]},
    "C07": {"title": "calling an included program equals inlining it", "level": "proof",
            "sections": [("pyvc", {}), ("frames", {}), ("atnk", {"groups": ["identity", "lexer_eq", "parser_eq", "codegen_sim"]}), ("witness", {"n_quick": 60, "n_thorough": 800})]},
    "C08": {"title": "measured-register arguments become transforms", "level": "proof",
            "sections": [("pyvc", {}), ("frames", {}), ("atnk", {"groups": ["identity", "lexer_eq", "parser_eq", "codegen_sim"]}), ("witness", W)]},
    "C09": {"title": "API-built programs serialise to valid, equivalent scripts", "level": "other",
            "sections": [("frames", {}), ("pyvc", {}), ("atnk", {"groups": ["canon_lex", "identity", "lexer_eq", "parser_eq", "codegen_sim"]}), ("lean", {"files": ["Fold.lean"]}), ("witness", W)],
            "explanation": "as C01, starting from API-built programs; the parse-back of the emitted text is bounded (witness family api_serialize)"},
    "C10": {"title": "ungrammatical scripts raise BlackbirdSyntaxError at the offending token", "level": "proof",
            "sections": [("frames", {}), ("pyvc", {}), ("atnk", {"groups": ["dominance", "identity", "lexer_eq", "parser_eq", "codegen_sim"]}), ("witness", W)]},
    "C11": {"title": "ill-formed but grammatical programs are refused", "level": "proof",
            "sections": [("frames", {}), ("pyvc", {}), ("atnk", {"groups": ["identity", "lexer_eq", "parser_eq", "codegen_sim"]}), ("witness", W)]},
    "C12": {"title": "each load is independent of every earlier load", "level": "proof",
            "sections": [("pyvc", {}), ("frames", {}), ("lean", {"files": ["Walk.lean"]}), ("atnk", {"groups": ["identity", "lexer_eq", "parser_eq", "codegen_sim"]}), ("witness", {"n_quick": 25, "n_thorough": 150})]},
    "C13": {"title": "read-only operations leave programs unchanged; instances independent", "level": "proof",
            "sections": [("frames", {}), ("pyvc", {}), ("witness", W)]},
    "C14": {"title": "shipped lexers/parsers recognise exactly the language of blackbird.g4", "level": "other",
            "sections": [("atnk", {"groups": ["identity", "lexer_eq", "parser_eq", "codegen_sim"]}), ("witness", {"n_quick": 400, "n_thorough": 6000})],
            "explanation": "closed obligations over the shipped artefacts (serialized ATNs, .interp, .tokens, g4): carrier identity, tagged-DFA equivalence of the lexer, "
                           "rule-wise regular equivalence of the parser ATN with the g4 right-hand sides, generated-code/ATN correspondence; each is decided completely "
                           "by evaluation (representation invariant against an abstract view; translation validation of ANTLR's output for this grammar, not of ANTLR)"},
    "C15": {"title": "TDM programs pass p-arrays by name and keep their data", "level": "other",
            "explanation": "contracts on the p-registration branch of exitArrayvar, the VariableLabel branch of _expression, exitProgram, is_ptype/_is_ptype, "
                           "_value_to_blackbird and serialize are discharged (PyVC, z3); the tdm declaration block of serialize is specified by a spec that mirrors the "
                           "code, and the re-load of the emitted declarations by the shipped parser is a bounded stand-in (witness families tdm, tdm_x, roundtrip_x)",
            "sections": [("frames", {}), ("pyvc", {}), ("atnk", {"groups": ["identity", "lexer_eq", "parser_eq", "codegen_sim"]}), ("witness", W)]},
    "C16": {"title": "the dependency graph is an order-respecting DAG", "level": "proof",
            "sections": [("frames", {}), ("pyvc", {}), ("lean", {"files": ["Graph.lean", "GridEdges.lean"]}), ("witness", W)]},
    "C17": {"title": "template matching inverts instantiation", "level": "other",
            "sections": [("pyvc", {}), ("frames", {}), ("lean", {"files": ["Graph.lean"]}), ("witness", W)],
            "explanation": "prechecks and argument loop of match_template under assumed contracts for DiGraphMatcher/solve (heavy assumptions, listed); reordering "
                           "isomorphism lemma G4 in Lean; the end-to-end left-inverse is a bounded stand-in (witness family template_match)"},
    "C18": {"title": "layout does not change the program", "level": "other",
            "sections": [("frames", {}), ("atnk", {"groups": ["layout", "lexer_eq", "identity", "parser_eq", "codegen_sim"]}), ("pyvc", {}), ("witness", W)],
            "explanation": "complete lexical lemmas LX1-LX4 on the shipped lexer DFA + NEWLINE-stutter lemma per rule on the shipped parser ATN (sufficient condition) + "
                           "contracts showing handlers read only content children; independence of ANTLR's chosen derivation from NEWLINE attachment is assumed "
                           "(A-layout-tree) with a bounded stand-in (witness family layout_edits)"},
    "C19": {"title": "deterministic across runs and hash seeds", "level": "proof",
            "sections": [("frames", {}), ("pyvc", {}), ("atnk", {"groups": ["identity", "lexer_eq", "parser_eq", "codegen_sim"]}), ("witness", {"n_quick": 24, "n_thorough": 200})]},
}
