"""Mutation self-test (thorough tier; DESIGN 2.8 (v)): every confirmed seeded change of this property (seeded/<id>/patch.diff) is applied to a
scratch copy of the repository's committed HEAD (outside /repo and /verif, removed afterwards) and the property's quick check is run on it with
VERIF_REPO: it must report a violation. A seed that stays green means the machinery lost a capability: engine error. Seeds whose patch no longer
applies to HEAD are skipped and listed."""
import argparse
import json
import os
import shutil
import subprocess
import sys
import tempfile
import time

from . import common as C


def main():
    ap = argparse.ArgumentParser()
    ap.add_argument("--prop", required=True)
    ap.add_argument("--tier", default="thorough")
    a = ap.parse_args()
    sec = {"engine": "selfmut", "obligations": [], "bounded": [], "errors": [], "notes": [], "assumptions": [], "trusted": []}
    seeds = []
    sdir = os.path.join(C.VERIF, "seeded")
    for sid in sorted(os.listdir(sdir)) if os.path.isdir(sdir) else []:
        try:
            m = json.load(open(os.path.join(sdir, sid, "meta.json")))
        except (OSError, ValueError):
            continue
        if m.get("property") == a.prop:
            seeds.append(sid)
    base = os.path.join(os.path.expanduser("~"), ".cache", "verif-scratch")
    os.makedirs(base, exist_ok=True)
    caught, cases, failures = 0, 0, []
    for sid in seeds:
        d = tempfile.mkdtemp(prefix="selfmut_%s_" % sid, dir=base)
        t0 = time.time()
        try:
            r = subprocess.run("git -C /repo archive HEAD | tar -x -C %s" % d, shell=True, stdout=subprocess.PIPE, stderr=subprocess.STDOUT)
            if r.returncode != 0:
                sec["notes"].append("%s: cannot export HEAD: %s" % (sid, r.stdout.decode()[-200:]))
                continue
            subprocess.run("git init -q .", shell=True, cwd=d, stdout=subprocess.PIPE, stderr=subprocess.STDOUT)
            r = subprocess.run(["git", "apply", os.path.join(sdir, sid, "patch.diff")], cwd=d, stdout=subprocess.PIPE, stderr=subprocess.STDOUT)
            if r.returncode != 0:
                sec["notes"].append("%s: patch does not apply to HEAD any more (skipped)" % sid)
                continue
            env = dict(os.environ, VERIF_REPO=d, VERIF_SELFMUT="1")
            env.pop("VERIF_TIER", None)
            r = subprocess.run([os.path.join(C.VERIF, "check"), a.prop, "--tier", "quick", "--no-evidence"], cwd=C.VERIF, env=env, stdout=subprocess.PIPE,
                               stderr=subprocess.STDOUT, timeout=3000)
            cases += 1
            out = r.stdout.decode("utf-8", "replace")
            if r.returncode == 1 and "VIOLATION property=%s" % a.prop in out:
                caught += 1
            else:
                failures.append({"family": "selfmut", "class": "seed-not-caught/%s" % sid, "input": {"seed": sid}, "expected": "exit 1 with a VIOLATION line",
                                 "actual": "exit %d: %s" % (r.returncode, out[-400:])})
                sec["errors"].append("mutation self-test: seeded change %s is no longer caught by ./check %s (exit %d)" % (sid, a.prop, r.returncode))
            sec["notes"].append("%s: exit %d in %.0fs" % (sid, r.returncode, time.time() - t0))
        finally:
            shutil.rmtree(d, ignore_errors=True)
    sec["bounded"].append({"name": "selfmut", "bound": "%d seeded changes of %s" % (len(seeds), a.prop), "rule": "each confirmed seeded change must turn the check red",
                           "cases": cases, "distinct": caught, "samples": seeds[:3], "failures": []})
    sec["extra"] = {"seeds": seeds, "caught": caught, "ran": cases}
    C.emit_section(sec)
    return 0


if __name__ == "__main__":
    sys.exit(main())
