"""./check --selftest : offline sanity of the framework itself (run by MANIFEST.setup_cmd)"""
import shutil
import subprocess
import sys

from . import common as C


def main():
    ok = True
    for exe in (C.PY_VT, C.PY_REPO, "lean"):
        if shutil.which(exe) is None:
            print("selftest: %s not found" % exe)
            ok = False
    r = subprocess.run([C.PY_VT, "-c", "import z3, pyvc.terms, pyvc.lib; s=z3.Solver(); s.add(*pyvc.terms.base_axioms()); s.add(*pyvc.lib.axioms()); "
                        "assert s.check()!=z3.unsat, 'axioms inconsistent'; print('axioms ok')"], cwd=C.VERIF, env=C.vt_env(), stdout=subprocess.PIPE, stderr=subprocess.STDOUT)
    print(r.stdout.decode().strip()[-400:])
    ok = ok and r.returncode == 0
    r = subprocess.run([C.PY_REPO, "-c", "import blackbird, replay.run; print('replay import ok')"], cwd=C.VERIF, env=C.repo_env(), stdout=subprocess.PIPE, stderr=subprocess.STDOUT)
    print(r.stdout.decode().strip()[-400:])
    ok = ok and r.returncode == 0
    return 0 if ok else C.EXIT_ENGINE
